"""C18 - inline text means the same in every block context; render options are inert.

(a) InlineModeLaw / EmbedLaw of DocAlgebraTrace.tla on pairs of observed parses: parseInline /
    renderInline vs the single-paragraph parse; the same one-line inline text (DocGen inline
    fragments) in paragraph, ATX heading, list item, block quote and table cell; the syntactic
    guards of the quantifier are evaluated in the specification.
(b) RenderOptsTrace.tla: lock-step acceptor of two HTML strings (reference options vs each of the
    2^4 combinations of xhtmlOut / breaks / langPrefix / highlight), token streams equal.
"""
from __future__ import annotations

import itertools
import json
import random

from .. import common as C
from .. import gen
from .. import algebra as A

PID = "C18"
REFDEF = "\n\n[r]: /u 't'\n"
CFGS = [gen.cfg_key(c) for c in (
    {"preset": "commonmark", "on": ["table"], "off": [], "opts": []},
    {"preset": "js-default", "on": [], "off": [], "opts": []},
    {"preset": "js-default", "on": [], "off": [], "opts": [["html", "T"], ["typographer", "T"]]},
)]
CTX = {"atx": ("# ", ""), "list": ("- ", ""), "quote": ("> ", ""), "cell": ("| h |\n|---|\n| ", " |"),
       # the text twice in one document (two cells / two items): what one inline block leaves behind must not reach the next
       "cell2": None, "list2": None}


def inline_html(md, toks, env):
    out = []
    for t in toks:
        if t.type == "inline":
            out.append(md.renderer.renderInline(t.children, md.options, env))
    return C.ascii_safe("\x1e".join(out[-1:]))  # the last inline token is the embedded text


def law_inline_mode(job):
    src, cfgkey = job
    md = A.md_for(cfgkey)
    env1, env2 = {}, {}
    base = A.parse(md, src, env=env1)
    base["bh"] = C.cps(md.render(src))
    toks = md.parseInline(src, env2)
    der = {"lines": [], "toks": [A.tok(t) for t in toks], "refs": [], "dups": [], "dh": C.cps(md.renderInline(src))}
    return {"op": "inline_mode", "maxn": md.options["maxNesting"], "a": {"src": C.ascii_safe(src), "t": C.cps(src)}, "base": base, "der": der}


def law_embed(job):
    t, ctx, cfgkey = job
    md = A.md_for(cfgkey)
    e1, e2 = {}, {}
    bdoc = t + REFDEF
    if ctx == "cell2":
        ddoc = "| " + t + " |\n|---|\n| " + t + " |" + REFDEF
    elif ctx == "list2":
        ddoc = "- " + t + "\n- " + t + REFDEF
    else:
        pre, post = CTX[ctx]
        ddoc = pre + t + post + REFDEF
    btoks = md.parse(bdoc, e1)
    dtoks = md.parse(ddoc, e2)
    base = {"lines": [], "toks": [A.tok(x) for x in btoks], "refs": [], "dups": [], "ih": inline_html(md, btoks, e1)}
    der = {"lines": [], "toks": [A.tok(x) for x in dtoks], "refs": [], "dups": [], "ih": inline_html(md, dtoks, e2)}
    return {"op": "embed", "maxn": md.options["maxNesting"], "a": {"t": C.cps(t), "ctx": ctx, "src": C.ascii_safe(t)},
            "base": base, "der": der}


def hl_mark(content, lang, attrs):
    from markdown_it.common.utils import escapeHtml
    return "<mark>" + escapeHtml(content) + "</mark>"


def hl_pre(content, lang, attrs):
    from markdown_it.common.utils import escapeHtml
    return "<pre class=hl>" + escapeHtml(content) + "</pre>"


_RMD = {}


def ro_md(preset, flags):
    key = (preset, tuple(sorted(flags.items())))
    if key not in _RMD:
        from markdown_it import MarkdownIt
        opts = {"xhtmlOut": bool(flags["xhtml"]), "breaks": bool(flags["breaks"]),
                "langPrefix": "x\"<-" if flags["lang"] else "language-",
                "highlight": {0: None, 1: hl_mark, 2: hl_pre}[flags["hl"]]}
        md = MarkdownIt(preset, opts)
        if preset == "commonmark":
            md.enable(["table", "strikethrough"])
        _RMD[key] = md
    return _RMD[key]


def law_renderopts(job):
    doc, preset, flags = job
    ref = ro_md(preset, {"xhtml": 0, "breaks": 0, "lang": 0, "hl": 0})
    var = ro_md(preset, flags)
    ta, tb = ref.parse(doc), var.parse(doc)

    def count(ts, ty):
        n = 0
        for t in ts:
            # children of an image are its description: rendered as text, not as line breaks
            n += (t.type == ty) + (count(t.children, ty) if t.children and t.type != "image" else 0)
        return n
    from markdown_it.common.utils import escapeHtml
    return {"a": C.cps(ref.render(doc)), "b": C.cps(var.render(doc)), "flags": flags,
            "nsoft": count(ta, "softbreak"), "nfence": count(ta, "fence"),
            "p1": C.cps(escapeHtml("language-")), "p2": C.cps(escapeHtml("x\"<-" if flags["lang"] else "language-")),
            "ta": A.jstr([t.as_dict() for t in ta]), "tb": A.jstr([t.as_dict() for t in tb])}


def run(tier, rep):
    q = tier == "quick"
    l2 = gen.docs("L2", tier, rep)
    l1 = gen.docs("L1", tier, rep, cfg="DocGen_L1_small.cfg" if q else None)
    l0 = gen.docs("L0", tier, rep)
    # (a1) inline mode
    pool = gen.sample(l2, 14000 if q else 200000, C.SEED) + gen.sample(l0, 8000 if q else 100000, C.SEED + 1) \
        + gen.sample(l1, 5000 if q else 60000, C.SEED + 2)
    nest, sizes = gen.alphabet("Nest"), gen.alphabet("NestSizes")
    pool += ["x " + "[" * n + "a" + "]" * n + "(u)" for n in sizes] + ["*" * n + "a" + "*" * n for n in sizes] \
        + ["![" * n + "a" + "](/u)" * n for n in sizes]
    # paragraph sources that look like the start of a block construct, and link attempts that look ahead over
    # unmatched delimiters before they fail (Alphabets.tla: ParaPrefixes, Lookahead)
    pre, look = gen.alphabet("ParaPrefixes"), gen.alphabet("Lookahead")
    l2one = [d for d in l2 if "\n" not in d and d.strip(" \t") == d and d]
    pool += look + [p + t for p in pre for t in look + gen.sample(l2one, 150 if q else 3000, C.SEED + 11)]
    j1 = [(d, CFGS[k % len(CFGS)]) for k, d in enumerate(pool)]
    t1 = C.pmap(law_inline_mode, j1, chunk=300)
    # (a2) embedding
    one = sorted({d.strip(" \t") for d in l2 if "\n" not in d and d.strip(" \t")})
    one = gen.sample(one, 9000 if q else 150000, C.SEED + 3)
    # deep inline nesting around maxNesting (20 / 100): the cut-off must not depend on the block context
    nest, sizes = gen.alphabet("Nest"), gen.alphabet("NestSizes")
    deep = sorted({"x " + u * n + m + c * n for (u, m, c) in nest for n in sizes
                   if "\n" not in u + m + c and not u.startswith((">", "- ", "1.", "#", "  "))} |
                  {"x " + "[" * n + "a" + "]" * n + "(u)" for n in sizes})
    one += deep
    one += look
    one += ['x" "y', "a' 'b", '"a', 'a 6" pipe', "it's \"", "'", 'q"', "(c) \"x"]
    # Unicode look-alikes inside one-line texts (a line separator, form feed, NEL, ... are ordinary characters of
    # the text for Markdown: the text stays one line in every block context)
    tw = [t for t in gen.twins(gen.sample([d for d in l2 if d.strip(" \t")], 4000 if q else 60000, C.SEED + 9), C.SEED, per_doc=2)
          if "\n" not in t and t.strip(" \t") == t and t]
    one += ["x" + t + "y" for t in tw[: len(tw) // 2]] + tw[len(tw) // 2:]
    j2 = [(t, ctx, CFGS[(k + n) % len(CFGS)]) for k, t in enumerate(one) for n, ctx in enumerate(CTX)]
    t2 = C.pmap(law_embed, j2, chunk=300)
    verdicts, st = C.validate_traces("DocAlgebraTrace", t1 + t2, shard=3000, heap="10g")
    rep.tlc_stats("DocAlgebraTrace[inline_mode, embed]", st, len(t1) + len(t2))
    skips, held = {}, {"inline_mode": 0, "embed": 0}
    for job, tr, (v, pos) in zip(j1 + j2, t1 + t2, verdicts):
        if v == "ok":
            held[tr["op"]] += 1
        elif v.startswith("skip:"):
            skips[v] = skips.get(v, 0) + 1
        elif v.startswith("harness:"):
            raise C.MachineryError(f"law trace rejected as malformed: {v} on {job!r}")
        else:
            rep.violation(f"{tr['op']}:{v}:{json.dumps(job)}",
                          {"engine": "trace", "module": "DocAlgebraTrace", "clause": v, "law": tr["op"], "job": list(job)})
    if min(held.values()) < 1000:
        raise C.MachineryError(f"too few law instances passed their guards: {held}")
    # (b) render options
    combos = [dict(xhtml=x, breaks=b, lang=l, hl=h) for x, b, l, h in itertools.product((0, 1), (0, 1), (0, 1), (0, 1, 2))
              if (x, b, l, h) != (0, 0, 0, 0)]
    docs = gen.sample(l1, 5000 if q else 60000, C.SEED + 4, keep_short=300) + gen.sample(l2, 3000 if q else 60000, C.SEED + 5)
    fence_docs = ["``` js x\n<a&\n```\n", "~~~\n\n~~~\n", "    code\n\n```\nb\n", "- ```py\n  x\n  ```\n", "> ```\n> q\n",
                  "a\nb  \nc\\\nd\n![x\ny](/s)\n", "``` a&b\"c\nz\n```\n\n***\n<br>\n", "```\n```\n```js\n1\n```\n"]
    docs += [f + d for f in fence_docs for d in ("", "p\nq\n", "# h\n")]
    j3 = []
    for k, d in enumerate(docs):
        for n in range(3 if q else len(combos)):
            j3.append((d, ("commonmark", "js-default")[k % 2], combos[(k * 5 + n * 7) % len(combos)]))
    t3 = C.pmap(law_renderopts, j3, chunk=300)
    verdicts, st = C.validate_traces("RenderOptsTrace", t3, shard=3000, heap="8g", existential=True)
    rep.tlc_stats("RenderOptsTrace", st, len(t3))
    ndiff = 0
    for job, tr, (v, pos) in zip(j3, t3, verdicts):
        if tr["a"] != tr["b"]:
            ndiff += 1
        if v != "ok":
            rep.violation(f"renderopts:{v}:{json.dumps(job)}",
                          {"engine": "trace", "module": "RenderOptsTrace", "clause": v, "law": "renderopts", "job": list(job),
                           "a": "".join(map(chr, tr["a"])), "b": "".join(map(chr, tr["b"])), "position_in_a": pos})
    if ndiff < 500:
        raise C.MachineryError("render-option variants hardly ever differ: generator too weak")
    rep.sample({"inline_mode": j1[5][0]})
    rep.sample({"embed": {"t": j2[7][0], "context": j2[7][1]}})
    rep.sample({"renderopts": {"doc": j3[-1][0], "flags": j3[-1][2]}})
    rep.cov["evaluations"] = len(t1) + len(t2) + len(t3)
    rep.cov["distinct_nontrivial"] = held["inline_mode"] + held["embed"] + ndiff
    rep.cov["held_per_law"] = dict(held, renderopts_pairs_that_differ=ndiff, renderopts_pairs=len(t3))
    rep.cov["guard_skips"] = skips
    rep.cov["rule"] = ("case = one law instance; non-trivial = guards hold and the comparison was made (inline_mode / embed), or "
                       "the two renderings really differ (render options)")
    rep.cov["exhaustive"] = False


def replay(case, rep):
    law = case["law"]
    job = case["job"]
    if law == "renderopts":
        t = law_renderopts((job[0], job[1], job[2]))
        v, _ = C.validate_traces("RenderOptsTrace", [t], existential=True)
    elif law == "embed":
        t = law_embed(tuple(job)); v, _ = C.validate_traces("DocAlgebraTrace", [t])
    else:
        t = law_inline_mode(tuple(job)); v, _ = C.validate_traces("DocAlgebraTrace", [t])
    if not (v[0][0] == "ok" or v[0][0].startswith("skip:")):
        rep.violation(case.get("key", "replay"), case)


def selftest():
    t = law_renderopts(("a\nb\n\n``` js\nx\n```\n\n***\n", "commonmark", dict(xhtml=1, breaks=1, lang=1, hl=1)))
    v, _ = C.validate_traces("RenderOptsTrace", [t], existential=True)
    assert v[0][0] == "ok", (v, "".join(map(chr, t["a"])), "".join(map(chr, t["b"])))
    t["b"] = C.cps("".join(map(chr, t["b"])).replace("<p>", "<p >"))
    v, _ = C.validate_traces("RenderOptsTrace", [t], existential=True)
    assert v[0][0] == "html_differs_outside_documented_place", v
    t2 = law_embed(("a *b* `c`", "atx", CFGS[0]))
    v, _ = C.validate_traces("DocAlgebraTrace", [t2])
    assert v[0][0] == "ok", v
    print("selftest C18 ok")
    return 0
