"""Facade half of C11: MarkdownIt.enable/disable/configure/use over all four rulers, with
'what is applied' observed at every parse: getRules of the four rulers and of the four terminator
chains, and which plugin rules were actually invoked, against the rules reported active."""
from __future__ import annotations

import random

from .. import common as C
from .. import facade
from . import c12


def run(tier, rep):
    cfg = f"Facade_c11_{tier}.cfg"
    r = C.run_tlc("MCFacade", cfg, allow_violation=False, heap="12g", timeout=3000)
    rep.tlc(f"Facade[{cfg}]", r)
    hists = [h for h in facade.histories_from(r) if h and any(e["op"] in ("enable", "disable", "configure") for e in h)]
    # every history ends with a parse, so that the rules applied after it are observed
    hists = [h + [{"op": "parse", "i": 1, "api": "render", "doc": "D2", "env": "omitted"}] for h in hists]
    if tier == "quick" and len(hists) > 3000:
        random.Random(C.SEED).shuffle(hists)
        hists = hists[:3000]
    if len(hists) < 300:
        raise C.MachineryError(f"only {len(hists)} facade histories exported")
    c12.validate(rep, "facade-histories", hists, "C11")
    return len(hists)
