def run(tier, rep):
    return 0
