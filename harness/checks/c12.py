"""C12 - a parse depends only on configuration, source and env: no hidden shared state.

E1: TLC checks Facade.tla (Isolation, CallsAreInert, RoutesAgree, TypeOK) over histories of two
    live instances.  E2: a shortest history to every distinct model state is replayed on real
    MarkdownIt instances.  E3: TLC validates the recorded executions against FacadeTrace.tla:
    projections of all live instances after every step, presets pristine, env labels, every parse
    equal to a freshly built identically configured instance, results functional over the history.
"""
from __future__ import annotations

import json
import random

from .. import common as C
from .. import facade

PID = "C12"


def extra_histories(n, seed):
    """Longer seeded histories (depth 8-20) from the same action alphabet, incl. three instances."""
    rnd = random.Random(seed)
    hs = []
    for _ in range(n):
        live, h = set(), []
        for _k in range(rnd.randint(8, 20)):
            i = rnd.choice([1, 2, 3])
            if i not in live:
                upd = rnd.choice([[], [], [["html", "F"]], [["breaks", "T"]], [["typographer", "T"]], [["store_labels", "T"]]])
                h.append({"op": "construct", "i": i, "preset": rnd.choice(["commonmark", "js-default", "zero"]), "upd": upd})
                live.add(i)
                continue
            op = rnd.choice(["parse", "parse", "parse", "enable", "disable", "setopt", "setopt", "add_render_rule", "configure",
                             "discard", "use", "share_opts"])
            if op == "share_opts":
                others = sorted(live - {i})
                if others:
                    h.append({"op": op, "i": i, "j": rnd.choice(others)})
                continue
            if op == "parse":
                h.append({"op": op, "i": i, "api": rnd.choice(["render", "parse"]), "doc": rnd.choice(["D1", "D2", "D3"]),
                          "env": rnd.choice(["omitted", "fresh", "shared"])})
            elif op in ("enable", "disable"):
                h.append({"op": op, "i": i, "names": sorted(set(rnd.choice(["table", "emphasis", "strikethrough", "smartquotes",
                          "replacements", "reference", "nosuch", "link", "html_block", "list"]) for _ in range(rnd.randint(1, 3)))),
                          "ign": rnd.random() < 0.5})
            elif op == "setopt":
                k, v = rnd.choice([("html", "T"), ("html", "F"), ("breaks", "T"), ("xhtmlOut", "F"), ("typographer", "T"),
                                   ("langPrefix", "x-"), ("store_labels", "T"), ("inline_definitions", "T")])
                h.append({"op": op, "i": i, "route": rnd.choice(["item", "attr"]), "k": k, "v": v})
            elif op == "add_render_rule":
                h.append({"op": op, "i": i, "name": "text"})
            elif op == "configure":
                h.append({"op": op, "i": i, "preset": rnd.choice(["commonmark", "js-default", "zero"]), "upd": []})
            elif op == "discard":
                h.append({"op": op, "i": i}); live.discard(i)
            elif op == "use":
                if not any(e["op"] == "use" and e["i"] == i for e in h[max(0, len(h) - 40):]) :
                    h.append({"op": op, "i": i})
        hs.append(_legal(h))
    return hs


def _legal(h):
    """Drop a second `use` on the same live incarnation (the model guards it)."""
    out, plugged = [], set()
    for e in h:
        if e["op"] in ("construct", "discard"):
            plugged.discard(e["i"])
        if e["op"] == "use":
            if e["i"] in plugged:
                continue
            plugged.add(e["i"])
        out.append(e)
    return out


RULE_OPS = {"enable", "disable", "chain_toggle", "configure", "enter_reset", "exit_reset", "use"}


def augment(h, n):
    """The model's state does not hold the lazily compiled rule chains, so a shortest history to a state never
    parses BEFORE a rule-management call and often ends without a parse.  Every history therefore gets final probe
    renders on each live instance, and every second history is `warmed`: a render is inserted before each
    rule-management call (the instance's chains are compiled when the call arrives).  Parse is enabled in every
    state of Facade.tla, so the augmented history is again a behaviour of the specification."""
    live, out = set(), []
    for e in h:
        i = e.get("i")
        if n % 2 and e["op"] in RULE_OPS and i in live:
            out.append({"op": "parse", "i": i, "api": "render", "doc": "D2", "env": "omitted"})
        out.append(e)
        if e["op"] == "construct":
            live.add(i)
        elif e["op"] == "discard":
            live.discard(i)
    for i in sorted(live):
        for d in ("D2", "D1", "D4"):
            out.append({"op": "parse", "i": i, "api": "render", "doc": d, "env": "omitted"})
    return out


def validate(rep, label, hists, pid=PID, shard=2500):
    hists = [augment(h, n) for n, h in enumerate(hists)]
    traces = C.pmap(facade.execute, [(h, n) for n, h in enumerate(hists)], chunk=32)
    verdicts, st = C.validate_traces("MCFacadeTrace", traces, cfg="FacadeTrace.cfg", shard=shard, heap="8g")
    rep.tlc_stats(f"FacadeTrace[{label}]", st, len(traces))
    for n, (h, t, (v, pos)) in enumerate(zip(hists, traces, verdicts)):
        if v != "ok":
            ops = [e["op"] for e in h]
            key = f"{label}:{v}:" + json.dumps(h[: max(1, pos)], sort_keys=True, separators=(",", ":"))
            rep.violation(key, {"engine": "trace", "module": "FacadeTrace", "clause": v, "event_index": pos - 1,
                                "history": h, "idx": n, "observed": t["ev"][pos - 2] if pos >= 2 else None, "ops": ops})
    rep.sample({"source": label, "history": hists[len(hists) // 2]})
    return traces


def run(tier, rep):
    cfg = f"Facade_c12_{tier}.cfg"
    r = C.run_tlc("MCFacade", cfg, allow_violation=False, heap="12g", timeout=3000)
    rep.tlc(f"Facade[{cfg}]", r)
    hists = [h for h in facade.histories_from(r) if h]
    if len(hists) < 500:
        raise C.MachineryError(f"only {len(hists)} histories exported")
    if tier == "quick" and len(hists) > 6000:
        random.Random(C.SEED).shuffle(hists)
        hists = hists[:6000]
        rep.cov["exhaustive"] = False
    validate(rep, "state-histories", hists)
    ex = extra_histories(600 if tier == "quick" else 8000, C.SEED)
    validate(rep, "random-long", ex)
    allh = hists + ex
    rep.cov["evaluations"] = len(allh)
    rep.cov["distinct_nontrivial"] = len({json.dumps(h, sort_keys=True) for h in allh
                                          if sum(e["op"] == "parse" for e in h) >= 1 and len(h) >= 3})
    rep.cov["rule"] = ("one case = one API-call history on up to three live instances; non-trivial = distinct history of "
                       ">= 3 calls with at least one parse compared against a fresh instance")
    rep.cov["bounds"] = {"cfg": cfg, "histories": len(hists), "random": len(ex)}
    rep.assumptions += ["fresh twin is built from the public projection of the live instance (which TLC compares with the model at every step)",
                        "probe documents D1-D3 stand for 'arbitrary documents'; they touch references, tables, html, typographer, fences, images"]


def replay(case, rep):
    t = facade.execute((case["history"], case.get("idx", 0)))
    v, _ = C.validate_traces("MCFacadeTrace", [t], cfg="FacadeTrace.cfg")
    if v[0][0] != "ok":
        rep.violation(case.get("key", "replay"), case)


def selftest():
    hs = extra_histories(40, 3)
    tr = [facade.execute((h, n)) for n, h in enumerate(hs)]
    v, _ = C.validate_traces("MCFacadeTrace", tr, cfg="FacadeTrace.cfg")
    assert all(x[0] == "ok" for x in v), [x for x in v if x[0] != "ok"]
    for t in tr:
        hit = [e for e in t["ev"] if e["op"] == "parse"]
        if hit:
            hit[0]["res"] = "deadbeef"
            break
    v, _ = C.validate_traces("MCFacadeTrace", tr, cfg="FacadeTrace.cfg")
    bad = [x for x in v if x[0] != "ok"]
    assert len(bad) == 1 and bad[0][0] == "differs_from_fresh_instance", bad
    print("selftest C12 ok:", bad[0])
    return 0
