"""C02 - token streams are well nested, correctly levelled and tree-constructible.

E1: TokenProducer.tla - how the inline parser produces a children list (push with delimiter contexts,
pairing of delimiters within one context, re-levelling in fragments_join) implies the acceptor's
clauses; without re-levelling or with pairs straddling a context the model violates them.
Inputs: DocGen (L1 line shapes, L2 inline fragments, L0 characters) x ConfigGen configurations,
through parse and parseInline.  Each returned stream is serialised depth-first and validated by
TLC against the pushdown acceptor TokenStreamTrace.tla (one clause per phrase of the statement).
"""
from __future__ import annotations

import json
import random

from .. import common as C
from .. import gen

PID = "C02"
_MD = {}


def md_for(cfgkey):
    if cfgkey not in _MD:
        _MD[cfgkey] = gen.make_md(json.loads(cfgkey))
    return _MD[cfgkey]


def events(tokens, out):
    for t in tokens:
        ty = t.type
        b, _, s = ty.rpartition("_")
        if not b:
            b, s = ty, ""
        out.append({"k": "t", "ty": C.ascii_safe(ty), "b": C.ascii_safe(b), "s": s, "g": C.ascii_safe(t.tag),
                    "n": t.nesting, "v": t.level, "m": C.ascii_safe(t.markup), "bl": 1 if t.block else 0,
                    "ch": 0 if t.children is None else 1})
        if t.children is not None:
            out.append({"k": "enter"})
            events(t.children, out)
            out.append({"k": "exit"})
    return out


def record(job):
    cfgkey, api, doc = job
    from markdown_it.tree import SyntaxTreeNode

    md = md_for(cfgkey)
    toks = getattr(md, api)(doc)
    ev = events(toks, [])
    try:
        SyntaxTreeNode(toks)
        ok = 1
    except Exception:
        ok = 0
    ev.append({"k": "tree", "ok": ok})
    pairs = sum(1 for e in ev if e["k"] == "t" and e["n"] == 1)
    return {"api": api, "ev": ev}, pairs


def jobs_for(tier, rep):
    rnd = random.Random(C.SEED)
    l1 = gen.docs("L1", tier, rep)
    l2 = gen.docs("L2", tier, rep)
    l0 = gen.docs("L0", tier, rep)
    cfgs = gen.configs(tier, rep)
    n1, n2, n0 = (20000, 30000, 6000) if tier == "quick" else (250000, 400000, 100000)
    d1 = gen.sample(l1, n1, C.SEED, keep_short=500)
    d2 = gen.sample([d + "\n\n[r]: /u 't'\n" for d in l2], n2, C.SEED + 1)
    d0 = gen.sample(l0, n0, C.SEED + 2)
    # Unicode twins (Alphabets!Twins): look-alikes of digits, blanks, line breaks, letters and punctuation
    dt = gen.twins(gen.sample(l1, n1 // 3, C.SEED + 4, keep_short=300), C.SEED, per_doc=1) \
        + gen.twins(gen.sample(d2, n2 // 4, C.SEED + 5), C.SEED + 1, per_doc=1)
    cfgkeys = [gen.cfg_key(c) for c in gen.BASE_CONFIGS]
    extra = gen.sample([gen.cfg_key(c) for c in cfgs], 60 if tier == "quick" else 600, C.SEED)
    jobs = []
    d3 = gen.sample(gen.l3_docs(), 30000 if tier == "quick" else 300000, C.SEED + 6, keep_short=800)
    for k, d in enumerate(d1 + d2 + d0 + dt + d3):
        ck = cfgkeys[k % len(cfgkeys)] if k % 3 else extra[(k // 3) % len(extra)]
        jobs.append((ck, "parse", d))
    # every delimiter-dense document (not sampled), alternating the two presets that post-process delimiter runs
    ld = gen.docs("LD", tier, rep, wrapname="WrapD")
    dcfg = [gen.cfg_key(c) for c in ({"preset": "js-default", "on": [], "off": [], "opts": []},
                                     {"preset": "commonmark", "on": ["strikethrough"], "off": [], "opts": []})]
    for k, d in enumerate(ld):
        jobs.append((dcfg[k % 2], "parse", d))
        if "~" in d:
            jobs.append((dcfg[1 - k % 2], "parse", d))
    # every emphasis sentence (3 / 4 delimiter runs x spacing of the words between them)
    es = gen.emphasis_sentences(rep)
    for k, d in enumerate(es):
        jobs.append((dcfg[k % 2], "parse" if k % 5 else "parseInline", d))
    for k, d in enumerate(gen.sample(d2 + d0, 8000 if tier == "quick" else 80000, C.SEED + 3)):
        jobs.append((cfgkeys[k % len(cfgkeys)], "parseInline", d))
    rep.cov["bounds"] = {"L1_enumerated": len(l1), "L2_enumerated": len(l2), "L0_enumerated": len(l0),
                         "configs_enumerated": len(cfgs), "executed": len(jobs), "unicode_twin_docs": len(dt), "delimiter_dense_docs_all_executed": len(ld), "emphasis_sentences_all_executed": len(es), "configs_used": len(cfgkeys) + len(extra)}
    rep.cov["exhaustive"] = False
    return jobs


def design_model(rep):
    """E1: mechanism => property, and the two mechanisms the property rests on are necessary."""
    r = C.run_tlc("TokenProducer", "TokenProducer.cfg", allow_violation=False, workers=8)
    rep.tlc("TokenProducer[push / pair-in-context / relevel]", r)
    for cfg in ("TokenProducer_norelevel.cfg", "TokenProducer_crossctx.cfg"):
        rv = C.run_tlc("TokenProducer", cfg, workers=8)
        if rv.ok or rv.violated != "WellFormed":
            raise C.MachineryError(f"TokenProducer[{cfg}] no longer violates WellFormed (vacuity guard)")
        rep.tlc(f"TokenProducer[{cfg}, expected counter-example]", rv)


def run(tier, rep):
    design_model(rep)
    jobs = jobs_for(tier, rep)
    res = C.pmap(record, jobs, chunk=200)
    traces = [r[0] for r in res]
    verdicts, st = C.validate_traces("TokenStreamTrace", traces, shard=5000)
    rep.tlc_stats("TokenStreamTrace", st, len(traces))
    for job, (v, pos) in zip(jobs, verdicts):
        if v != "ok":
            rep.violation(f"{v}:{job[1]}:{job[0]}:{json.dumps(job[2])}",
                          {"engine": "trace", "module": "TokenStreamTrace", "clause": v, "event_index": pos - 2,
                           "input": {"config": json.loads(job[0]), "api": job[1], "doc": job[2]}})
    rep.sample({"config": json.loads(jobs[7][0]), "api": jobs[7][1], "doc": jobs[7][2], "events": len(traces[7]["ev"])})
    rep.sample({"config": json.loads(jobs[-1][0]), "api": jobs[-1][1], "doc": jobs[-1][2]})
    rep.cov["evaluations"] = len(jobs)
    rep.cov["distinct_nontrivial"] = len({(j[0], j[1], j[2]) for j, r in zip(jobs, res) if r[1] >= 1})
    rep.cov["rule"] = ("case = (configuration, api, document); documents enumerated by DocGen.tla and subsampled with the "
                       "run seed; non-trivial = the returned stream contains at least one open/close pair")
    rep.assumptions += ["streams are serialised depth-first by the harness (type split at its last underscore)"]


def replay(case, rep):
    i = case["input"]
    job = (gen.cfg_key(i["config"]), i["api"], i["doc"])
    t, _ = record(job)
    v, _ = C.validate_traces("TokenStreamTrace", [t])
    if v[0][0] != "ok":
        rep.violation(case.get("key", "replay"), case)


def selftest():
    job = (gen.cfg_key(gen.BASE_CONFIGS[0]), "parse", "> a *b*\n")
    t, _ = record(job)
    v, _ = C.validate_traces("TokenStreamTrace", [t])
    assert v[0][0] == "ok", v
    for e in t["ev"]:
        if e["k"] == "t" and e["ty"] == "em_close":
            e["v"] += 1
    v, _ = C.validate_traces("TokenStreamTrace", [t])
    assert v[0][0] == "level", v
    print("selftest C02 ok:", v[0])
    return 0
