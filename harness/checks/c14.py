"""C14 - an exception escaping from user code leaves the instance intact.

E1: TLC checks Facade.tla with fault actions and nested reset_rules blocks (ResetRestores,
    CallsAreInert); the as_found variant (no restore on the exception path) must still fail.
E2: histories to every distinct model state are replayed on real instances; in addition every
    crash point is enumerated: for each configuration x document x user-code site the fault is
    injected at EVERY invocation index k that occurs (counted by a clean run), rotating the
    exception type.
E3: TLC validates every recorded execution against FacadeTrace.tla (projection after every step,
    injected exception propagates unchanged, probe parses after the fault equal a fresh instance).
"""
from __future__ import annotations

import json

from .. import common as C
from .. import facade
from . import c12

PID = "C14"
EXCS = ["ValueError", "TypeError", "KeyError", "AttributeError", "RecursionError", "IndexError", "KeyboardInterrupt", "StopIteration"]


def count_sites(preset, doc):
    from markdown_it import MarkdownIt

    arm = facade.Arm()
    md = MarkdownIt(preset, {"highlight": facade.make_highlight(arm)})
    md.use(facade.make_plugin(arm))
    md.add_render_rule("text", facade.make_text_rule(arm))
    md.render(facade.DOCS[doc])
    return dict(arm.counts)


def crash_histories(tier):
    hs = []
    presets = ["commonmark", "js-default"] if tier == "quick" else ["commonmark", "js-default", "zero"]
    docs = ["D1", "D2"] if tier == "quick" else ["D1", "D2", "D3"]
    total = {}
    for p in presets:
        for d in docs:
            counts = count_sites(p, d)
            for site, n in sorted(counts.items()):
                total[site] = total.get(site, 0) + n
                ks = range(1, n + 1)
                if tier == "quick" and n > 40:
                    step = n // 40 + 1
                    ks = sorted(set(list(range(1, n + 1, step)) + [1, 2, n - 1, n]))
                for k in ks:
                    # two exception types per crash point; every type at the first / last invocation of a site
                    excs = EXCS if k in (1, n) else [EXCS[k % len(EXCS)], EXCS[(k * 3 + 1) % len(EXCS)]]
                    for x in excs:
                        hs.append([{"op": "construct", "i": 1, "preset": p, "upd": [["highlight", "H"]]},
                                   {"op": "use", "i": 1},
                                   {"op": "add_render_rule", "i": 1, "name": "text"},
                                   {"op": "fault", "i": 1, "doc": d, "site": site, "exc": x, "k": k}])
    return hs, total


def reset_histories():
    """reset_rules: every exit path, nested, with faults and toggles inside the block."""
    hs = []
    for p in ("commonmark", "js-default", "zero"):
        for how1 in ("normal", "exception"):
            for how2 in ("normal", "exception"):
                for names in (["emphasis"], ["table", "strikethrough"], ["text"], ["list", "nosuch"]):
                    h = [{"op": "construct", "i": 1, "preset": p, "upd": []},
                         {"op": "parse", "i": 1, "api": "render", "doc": "D2", "env": "omitted"},
                         {"op": "enter_reset", "i": 1},
                         {"op": "disable", "i": 1, "names": names, "ign": True},
                         {"op": "parse", "i": 1, "api": "render", "doc": "D2", "env": "omitted"},
                         {"op": "enter_reset", "i": 1},
                         {"op": "enable", "i": 1, "names": ["table", "strikethrough", "linkify"], "ign": True},
                         {"op": "disable", "i": 1, "names": ["linkify"], "ign": True},
                         {"op": "parse", "i": 1, "api": "render", "doc": "D1", "env": "omitted"},
                         {"op": "exit_reset", "i": 1, "how": how2},
                         {"op": "parse", "i": 1, "api": "render", "doc": "D2", "env": "omitted"},
                         {"op": "exit_reset", "i": 1, "how": how1},
                         {"op": "parse", "i": 1, "api": "render", "doc": "D2", "env": "omitted"},
                         {"op": "parse", "i": 1, "api": "render", "doc": "D1", "env": "omitted"}]
                    hs.append(h)
    # a chain with no active rule on entry (restoring the empty set)
    for chain_names in (["text"], ["balance_pairs", "fragments_join"], ["emphasis", "strikethrough"]):
        for how in ("normal", "exception"):
            hs.append([{"op": "construct", "i": 1, "preset": "zero", "upd": []},
                       {"op": "disable", "i": 1, "names": chain_names, "ign": False},
                       {"op": "parse", "i": 1, "api": "render", "doc": "D2", "env": "omitted"},
                       {"op": "enter_reset", "i": 1},
                       {"op": "enable", "i": 1, "names": chain_names + ["emphasis"], "ign": False},
                       {"op": "parse", "i": 1, "api": "render", "doc": "D2", "env": "omitted"},
                       {"op": "exit_reset", "i": 1, "how": how},
                       {"op": "parse", "i": 1, "api": "render", "doc": "D2", "env": "omitted"}])
    # a rule name shared by two chains in DIFFERENT states on entry (only reachable through the ruler API)
    for p in ("commonmark", "js-default"):
        for chain, name in (("inline2", "emphasis"), ("inline", "emphasis"), ("inline2", "strikethrough"), ("inline", "strikethrough"),
                            ("core", "linkify"), ("inline", "linkify")):
            for kind in ("disable", "enable"):
                for body in ("disable", "enable"):
                    for how in ("normal", "exception"):
                        hs.append([{"op": "construct", "i": 1, "preset": p, "upd": []},
                                   {"op": "enable" if kind == "disable" else "disable", "i": 1, "names": [name], "ign": True},
                                   {"op": "chain_toggle", "i": 1, "kind": kind, "chain": chain, "names": [name]},
                                   {"op": "parse", "i": 1, "api": "render", "doc": "D2", "env": "omitted"},
                                   {"op": "enter_reset", "i": 1},
                                   {"op": body, "i": 1, "names": [name], "ign": True},
                                   {"op": "exit_reset", "i": 1, "how": how},
                                   {"op": "parse", "i": 1, "api": "render", "doc": "D2", "env": "omitted"}])
    return hs


def run(tier, rep):
    cfg = f"Facade_c14_{tier}.cfg"
    r = C.run_tlc("MCFacade", cfg, allow_violation=False, heap="12g", timeout=3000)
    rep.tlc(f"Facade[{cfg}]", r)
    ra = C.run_tlc("MCFacade", "Facade_c14_asfound.cfg")
    if ra.ok or ra.violated != "ResetRestores":
        raise C.MachineryError("as_found Facade no longer violates ResetRestores (vacuity guard)")
    rep.tlc("Facade[as_found, expected counter-example]", ra)
    hists = [h for h in facade.histories_from(r) if h]
    hists = [h for h in hists if any(e["op"] in ("fault", "exit_reset") for e in h)]
    if len(hists) < 300:
        raise C.MachineryError(f"only {len(hists)} fault/reset histories exported")
    c12.validate(rep, "state-histories", hists, PID)
    ch, total = crash_histories(tier)
    c12.validate(rep, "crash-points", ch, PID)
    rh = reset_histories()
    c12.validate(rep, "reset-paths", rh, PID)
    rep.cov["evaluations"] = len(hists) + len(ch) + len(rh)
    rep.cov["distinct_nontrivial"] = len({json.dumps(h, sort_keys=True) for h in hists + ch + rh})
    rep.cov["rule"] = ("one case = a history containing a fault (site, invocation index k, exception type) or a reset_rules "
                       "exit path, followed by probe parses; crash points: every k <= N(site) counted by a clean run "
                       "(quick: <= 40 per site incl. first/last); all are distinct and non-trivial")
    rep.cov["bounds"] = {"cfg": cfg, "crash_points": len(ch), "invocations_per_site": total, "reset_paths": len(rh)}
    rep.assumptions += ["user code = plugin rule per chain (block rule also in all terminator chains), a text render rule, a highlight callback",
                        "instance identity is judged through the public projection and probe renders of three documents"]


def replay(case, rep):
    c12.replay(case, rep)


def selftest():
    hs, _ = crash_histories("quick")
    hs = hs[:30]
    tr = [facade.execute((h, n)) for n, h in enumerate(hs)]
    v, _ = C.validate_traces("MCFacadeTrace", tr, cfg="FacadeTrace.cfg")
    assert all(x[0] == "ok" for x in v), [x for x in v if x[0] != "ok"]
    for e in tr[0]["ev"]:
        if e["op"] == "fault":
            e["proj"][0]["masks"][1] ^= 1
    v, _ = C.validate_traces("MCFacadeTrace", tr, cfg="FacadeTrace.cfg")
    assert v[0][0] == "projection", v[0]
    print("selftest C14 ok:", v[0])
    return 0
