"""C11 - rule management is coherent over any history, including failed calls.

E1: TLC checks Ruler.tla exhaustively (invariants Coherent / AppliedIsReported / ..., action
    properties SetSemantics / FailedLookupIsInert) and the as_found variant must still fail.
E2: every history TLC reached a distinct state by is replayed on a real markdown_it.ruler.Ruler.
E3: the recorded executions (plus hypothesis-generated longer ones, plus facade-level ones) are
    validated by TLC against RulerTrace.tla; TLC decides every verdict.
"""
from __future__ import annotations

import json
import random

from .. import common as C

PID = "C11"


class Spy:
    __slots__ = ("id",)

    def __init__(self, i):
        self.id = i

    def __call__(self, *a, **k):
        return False


def execute(hist):
    """Run one history on a fresh real Ruler; return the recorded trace (list of events)."""
    from markdown_it.ruler import Ruler

    r = Ruler()
    out = []
    for k, e in enumerate(hist):
        op = e["op"]
        ev = dict(e)
        try:
            res = None
            if op == "push":
                r.push(e["name"], Spy(e["fn"]), {"alt": list(e["alt"])} if (e["alt"] or k % 2) else None)
            elif op in ("before", "after"):
                getattr(r, op)(e["ref"], e["name"], Spy(e["fn"]), {"alt": list(e["alt"])} if (e["alt"] or k % 2) else None)
            elif op == "at":
                r.at(e["ref"], Spy(e["fn"]), {"alt": list(e["alt"])} if (e["alt"] or k % 2) else None)
            elif op in ("enable", "disable", "enableOnly"):
                names = e["names"]
                arg = names[0] if (len(names) == 1 and k % 2 == 0) else (list(names) if k % 3 else tuple(names))
                res = getattr(r, op)(arg, e["ign"]) if (e["ign"] or k % 2) else getattr(r, op)(arg)
                ev["found"] = list(res)
            elif op == "getRules":
                res = r.getRules(e["chain"]) if (e["chain"] or k % 2) else r.getRules()
                ev["fns"] = [getattr(f, "id", -1) for f in res]
            else:
                raise C.MachineryError(f"unknown op {op}")
            ev["out"] = "ok"
        except KeyError:
            ev["out"] = "KeyError"
        except Exception as ex:  # any other exception type is itself an observation
            ev["out"] = type(ex).__name__
        ev["all"] = list(r.get_all_rules())
        ev["active"] = list(r.get_active_rules())
        out.append(ev)
    return out


def gen_random_histories(n, seed, names=("a", "b", "c", "d"), ghosts=("zz", "yy"), chains=("p", "q", "r"), maxlen=25):
    """Longer seeded histories over a larger universe (drawn from the same action alphabet)."""
    rnd = random.Random(seed)
    hs = []
    for _ in range(n):
        h, fn = [], 1
        for _k in range(rnd.randint(5, maxlen)):
            op = rnd.choice(["push", "push", "before", "after", "at", "enable", "disable", "enableOnly",
                             "getRules", "getRules", "getRules"])
            alln = names + ghosts
            alt = sorted(c for c in chains if rnd.random() < 0.35)
            if op == "push":
                h.append({"op": op, "name": rnd.choice(names), "alt": alt, "fn": fn}); fn += 1
            elif op in ("before", "after"):
                h.append({"op": op, "ref": rnd.choice(alln), "name": rnd.choice(names), "alt": alt, "fn": fn}); fn += 1
            elif op == "at":
                h.append({"op": op, "ref": rnd.choice(alln), "alt": alt, "fn": fn}); fn += 1
            elif op == "getRules":
                h.append({"op": op, "chain": rnd.choice(("",) + chains + ("nochain",))})
            else:
                k = rnd.randint(1, 3)
                h.append({"op": op, "names": [rnd.choice(alln if rnd.random() < 0.5 else names) for _ in range(k)],
                          "ign": rnd.random() < 0.5})
        hs.append(h)
    return hs


def _traces_from(hists):
    return [{"ev": t} for t in C.pmap(execute, hists, chunk=256)]


def _validate(rep, label, hists, traces):
    verdicts, st = C.validate_traces("RulerTrace", traces, shard=6000, existential=True)
    rep.tlc_stats(f"RulerTrace[{label}]", st, len(traces))
    bad = 0
    for h, t, (v, pos) in zip(hists, traces, verdicts):
        if v != "ok":
            bad += 1
            pref = h[: max(pos - 1, 1)]
            key = f"{label}:{v}:" + json.dumps(pref, sort_keys=True, separators=(",", ":"))
            rep.violation(key, {"engine": "trace", "module": "RulerTrace", "clause": v, "event_index": pos - 1,
                                "history": h, "observed": t["ev"][: pos]})
    return bad


TERM_DOCS = {
    # document -> chains whose owner certainly looks for terminators in it
    "para\nnext line\nthird\n": ["paragraph"],
    "[foo]: /url\nbar\n\n[baz]:\n/u\nqux\n": ["reference"],
    "> quote\nlazy\n> more\nlazy again\n": ["blockquote", "paragraph"],
    "- item\n- two\ntail\n\n1. x\n2. y\n": ["list", "paragraph"],
    "| a | b |\n|---|---|\n| 1 | 2 |\nrow-ish\n": ["blockquote"],
    "head\n====\n\ntext\nmore\n": ["paragraph"],
    "> - in quote\n> lazy\n\n[r]: /u\n'title\nrest'\n": ["reference", "paragraph"],
    # containers directly inside one another, then the same containers at top level (a chain fetched for the inner
    # block is the object the outer block and every later parse fetch)
    "- > quote in item\n  lazy\n\n> top quote\nlazy\n": ["blockquote"],
    "> - item in quote\n> lazy\n\n- top item\nlazy\n\n| a |\n|---|\n| 1 |\nrow\n": ["blockquote", "paragraph", "list"],
    "1. > q\n   > r\n2. [x]: /u\n   'y\n   z'\n\n> [p]: /q\n> 's\n> t'\n": ["list", "reference"],
}
CH4 = ["paragraph", "reference", "blockquote", "list"]


def term_record(job):
    """Probe rules, each a member of exactly one named terminator chain, registered by one of the Ruler's
    registration calls, some of them disabled afterwards; every silent invocation is logged with the
    parentType of the rule that consulted the chain."""
    from markdown_it import MarkdownIt

    preset, how, off, doc = job
    md = MarkdownIt(preset)
    md.enable(["table"], True)
    log = []

    def mk(chain):
        def probe(state, startLine, endLine, silent):
            if silent:
                # who consults: the block rule whose frame calls the probe (state.parentType is not reliable: a
                # failing lheading leaves "paragraph" behind, see SystemTrace)
                import os
                import sys
                log.append([chain, os.path.basename(sys._getframe(1).f_code.co_filename)])
            return False
        probe.__name__ = "verif_t_" + chain
        return probe
    r = md.block.ruler
    for k, ch in enumerate(CH4):
        name, fn, opt = "verif_t_" + ch, mk(ch), {"alt": [ch]}
        mode = how[k % len(how)]
        if mode == "push":
            r.push(name, fn, opt)
        elif mode == "before":
            r.before("paragraph", name, fn, opt)
        elif mode == "after":
            r.after("code", name, fn, opt)
        else:   # registered with a wrong membership first, then replaced by at()
            r.push(name, mk("wrong"), {"alt": list(CH4)})
            r.at(name, fn, opt)
    md.parse("warm up\nline\n> q\n")              # chains compiled before the toggles below
    del log[:]
    if off:
        md.disable(["verif_t_" + c for c in off])
    active = [c for c in CH4 if "verif_t_" + c in md.get_active_rules()["block"]]

    def chains():   # what the Ruler reports per chain (parsing is not a rule-management call: it must not change it)
        return [[ch] + [getattr(f, "__name__", "?") for f in r.getRules(ch)] for ch in [""] + CH4]
    pre = chains()
    md.parse(doc)
    mid = chains()
    n1 = len(log)
    md.parse(doc)                                 # ... and a second parse consults what the first one did
    return {"ev": log[:400], "active": active, "expect": TERM_DOCS[doc], "pre": pre, "post": mid, "post2": chains(),
            "n1": n1, "n2": len(log) - n1}


def term_membership(tier, rep):
    jobs = []
    hows = [["push"], ["before"], ["after"], ["at"], ["push", "before", "after", "at"], ["at", "after", "before", "push"]]
    offs = [[], ["reference"], ["paragraph"], ["blockquote", "list"], ["paragraph", "reference", "blockquote", "list"]]
    for preset in ("commonmark", "js-default", "zero"):
        for how in hows:
            for off in offs:
                for doc in TERM_DOCS:
                    if preset == "zero":
                        continue
                    jobs.append((preset, how, off, doc))
    traces = C.pmap(term_record, jobs, chunk=16)
    verdicts, st = C.validate_traces("TermChainTrace", traces, shard=500)
    rep.tlc_stats("TermChainTrace[named chains as consulted by the parser]", st, len(traces))
    for job, (v, pos) in zip(jobs, verdicts):
        if v != "ok":
            rep.violation(f"term-chains:{v}:{job[0]}:{job[1]}:{job[2]}:{json.dumps(job[3])}",
                          {"engine": "trace", "module": "TermChainTrace", "clause": v, "term_job": list(job)})
    return len(jobs)


def run(tier, rep):
    cfg = "Ruler_quick.cfg" if tier == "quick" else "Ruler_thorough.cfg"
    # E1 design model
    r = C.run_tlc("Ruler", cfg, coverage=False, allow_violation=False, heap="12g")
    rep.tlc(f"Ruler[{cfg}]", r)
    hists = []
    for line in r.out.splitlines():
        if line.startswith('"['):
            hists.append(json.loads(json.loads(line)))
    hists = [h for h in hists if h]
    if len(hists) < 1000:
        raise C.MachineryError(f"only {len(hists)} histories exported by TLC")
    # non-vacuity: the as-found statement order must still violate Coherent in the model
    ra = C.run_tlc("Ruler", "Ruler_asfound.cfg")
    if ra.ok or ra.violated not in ("Coherent", "AppliedIsReported"):
        raise C.MachineryError("as_found variant of Ruler.tla no longer violates Coherent (vacuity guard)")
    rep.tlc("Ruler[as_found, expected counter-example]", ra)
    # every transition of a tiny configuration
    # unbounded histories at bounded registry size: IndInv is inductive (one step from EVERY state satisfying it)
    ri = C.run_tlc("RulerInd", f"RulerInd_{tier}.cfg", allow_violation=False, heap="12g", timeout=3000)
    rep.tlc(f"RulerInd[{tier}: IndInv /\\ Next => IndInv']", ri)
    ria = C.run_tlc("RulerInd", "RulerInd_asfound.cfg")
    if ria.ok or ria.violated != "IndInv":
        raise C.MachineryError("as_found variant no longer breaks the inductive step (vacuity guard)")
    rep.tlc("RulerInd[as_found, expected counter-example]", ria)
    rt = C.run_tlc("Ruler", "Ruler_tiny.cfg", allow_violation=False)
    rep.tlc("Ruler[tiny, every transition]", rt)
    edges = {l for l in rt.out.splitlines() if l.startswith('"[{')}
    ehists = [json.loads(json.loads(l)) for l in sorted(edges)]
    # E2 replay + E3 validation
    n_rand = 3000 if tier == "quick" else 40000
    rhists = gen_random_histories(n_rand, C.SEED)
    total = 0
    for label, hs in (("state-histories", hists), ("tiny-edges", ehists), ("random-long", rhists)):
        traces = _traces_from(hs)
        _validate(rep, label, hs, traces)
        total += len(hs)
        rep.sample({"source": label, "history": hs[len(hs) // 2], "observed_last": traces[len(hs) // 2]["ev"][-1]})
    # facade level: same trace spec, one trace per ruler of a real MarkdownIt
    from . import c11_facade
    total += c11_facade.run(tier, rep)
    total += term_membership(tier, rep)
    nontrivial = len({json.dumps(h, sort_keys=True) for h in hists + ehists + rhists
                      if any(e["op"] == "getRules" for e in h) and len(h) >= 3})
    rep.cov["evaluations"] = total
    rep.cov["distinct_nontrivial"] = nontrivial
    rep.cov["exhaustive"] = True
    rep.cov["rule"] = ("histories = one shortest call sequence per distinct state of the exhaustive Ruler.tla graph "
                       "+ every transition of the tiny config + seeded long histories + facade histories; "
                       "non-trivial = distinct history with >= 3 calls containing a getRules observation")
    rep.cov["bounds"] = {"cfg": cfg, "random_histories": n_rand}
    rep.assumptions += ["TLC and CommunityModules Json/IOUtils are trusted",
                        "rule functions are opaque spies; fn ids are assigned in call order",
                        "a multi-name enable/disable/enableOnly that raises may apply a prefix or nothing (statement fixes only coherence)"]


def replay(case, rep):
    if case.get("module") == "FacadeTrace":
        from . import c12
        return c12.replay(case, rep)
    if case.get("module") == "TermChainTrace":
        j = case["term_job"]
        v, _ = C.validate_traces("TermChainTrace", [term_record((j[0], j[1], j[2], j[3]))])
        if v[0][0] != "ok":
            rep.violation(case.get("key", "replay"), case)
        return
    h = case["history"]
    t = {"ev": execute(h)}
    _validate(rep, case.get("key", "replay").split(":")[0], [h], [t])


def selftest():
    """R7: corrupt one recorded field and require rejection; as_found model must fail."""
    hs = gen_random_histories(50, 1)
    hs = [h for h in hs if any(e["op"] == "getRules" for e in h)]
    tr = _traces_from(hs)
    v, _ = C.validate_traces("RulerTrace", tr, existential=True)
    assert all(x[0] == "ok" for x in v), v
    # corrupt: drop one fn from a getRules observation that returned something
    done = False
    for t in tr:
        for e in t["ev"]:
            if e["op"] == "getRules" and e.get("fns"):
                e["fns"] = e["fns"][1:]
                done = True
                break
        if done:
            break
    assert done
    v, _ = C.validate_traces("RulerTrace", tr, existential=True)
    bad = [x for x in v if x[0] != "ok"]
    assert len(bad) == 1 and bad[0][0] == "applied_ne_reported", bad
    print("selftest C11 ok: corrupted observation rejected with", bad[0])
    return 0
