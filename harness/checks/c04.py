"""C04 - with raw HTML off, output is well-formed and contains only renderer-made markup.

Inputs: metacharacter-dense fragments (with out-of-vocabulary twins) placed by DocGen.tla into
every render path (text, code span, indented/fenced code and info, link destination/title, image
alt/title/src, autolink, table cells, headings, references, emphasis, html-looking blocks, ...),
plus line-shape and inline documents, x every configuration with html off.  Each rendered output
is validated by TLC, one step per output code point, against the lexer/tag-stack acceptor
HtmlOutTrace.tla.
"""
from __future__ import annotations

import json

from .. import common as C
from .. import gen

PID = "C04"
_MD = {}


def configs():
    cs = [
        {"preset": "js-default", "on": [], "off": [], "opts": []},
        {"preset": "zero", "on": [], "off": [], "opts": []},
        {"preset": "commonmark", "on": [], "off": [], "opts": [["html", "F"]]},
        {"preset": "js-default", "on": [], "off": [], "opts": [["typographer", "T"], ["quotes", "qlist"]]},
        {"preset": "js-default", "on": [], "off": [], "opts": [["langPrefix", "x\"<"], ["breaks", "T"], ["xhtmlOut", "T"]]},
        {"preset": "commonmark", "on": ["table", "strikethrough"], "off": [], "opts": [["html", "F"], ["inline_definitions", "T"], ["store_labels", "T"]]},
        {"preset": "js-default", "on": [], "off": ["escape", "entity"], "opts": [["maxNesting", "2"]]},
        {"preset": "js-default", "on": [], "off": ["backticks", "link", "emphasis"], "opts": [["langPrefix", ""]]},
        {"preset": "js-default", "on": [], "off": ["html_inline", "html_block", "autolink"], "opts": [["typographer", "T"], ["quotes", "q4"]]},
        {"preset": "zero", "on": ["link", "image", "backticks", "fence", "table", "entity", "escape", "autolink"], "off": [], "opts": []},
        {"preset": "commonmark", "on": [], "off": ["fragments_join", "balance_pairs"], "opts": [["html", "F"]]},
        {"preset": "js-default", "on": [], "off": ["reference", "list", "blockquote"], "opts": []},
        # "any rule subset" (the quantifier of C04 does not restrict itself to C01's supported set): core pipeline
        # rules switched off - inline containers that never reach the inline parser, placeholder tokens that are
        # never joined, a source that is never normalised
        {"preset": "js-default", "on": [], "off": ["inline"], "opts": []},
        {"preset": "js-default", "on": [], "off": ["text_join"], "opts": []},
        {"preset": "commonmark", "on": ["table"], "off": ["normalize", "text_join"], "opts": [["html", "F"]]},
        {"preset": "zero", "on": ["escape", "entity"], "off": ["inline"], "opts": []},
    ]
    return [gen.cfg_key(c) for c in cs]


def record(job):
    cfgkey, api, doc = job
    if cfgkey not in _MD:
        _MD[cfgkey] = gen.make_md(json.loads(cfgkey))
    md = _MD[cfgkey]
    assert not md.options["html"]
    out = getattr(md, api)(doc)
    return {"html": C.cps(out)}, out.count("<")


_SK = None


def skeleton_job(job):
    """Render and reduce to the tag skeleton (text runs between tags collapsed to 'x'); used only to
    pick one representative per distinct tag structure - the acceptor still judges the representative."""
    import re
    global _SK
    if _SK is None:
        _SK = re.compile(r">[^<>]+<")
    cfgkey, api, doc = job
    if cfgkey not in _MD:
        _MD[cfgkey] = gen.make_md(json.loads(cfgkey))
    out = getattr(_MD[cfgkey], api)(doc)
    return _SK.sub(">x<", out)


def build_jobs(tier, rep):
    q = tier == "quick"
    lm = gen.docs("LM", tier, rep, wrapname="WrapM")
    l1 = gen.docs("L1", tier, rep)
    l2 = gen.docs("L2", tier, rep)
    cfgs = configs()
    jobs = []
    for k, d in enumerate(gen.sample(lm, 45000 if q else 10 ** 9, C.SEED)):
        jobs.append((cfgs[k % len(cfgs)], "render", d + ("\n" if k % 2 else "")))
        if k % 9 == 0:
            jobs.append((cfgs[(k // 9) % len(cfgs)], "renderInline", d))
    for k, d in enumerate(gen.sample(l1, 12000 if q else 150000, C.SEED + 1, keep_short=1000)):
        jobs.append((cfgs[k % len(cfgs)], "render", d))
    for k, d in enumerate(gen.twins(gen.sample(l1, 3000 if q else 40000, C.SEED + 7, keep_short=300) + gen.sample(lm, 3000 if q else 40000, C.SEED + 8),
                                    C.SEED, per_doc=1)):
        jobs.append((cfgs[k % len(cfgs)], "render", d))
    for k, d in enumerate(gen.sample(l2, 8000 if q else 150000, C.SEED + 2)):
        jobs.append((cfgs[k % len(cfgs)], "render", d + "\n\n[r]: /u \"t<\"\n"))
    # every inline-fragment document: one representative per distinct tag structure
    sj = [(cfgs[(0, 2, 5)[k % 3]], "render", d) for k, d in enumerate(l2)]
    # every string of up to three characters of L0 (NBSP, NUL, CR, emoji, ... next to the markers)
    l0 = [d for d in gen.docs("L0", tier, rep) if len(d) <= 3]
    jobs += [(cfgs[k % len(cfgs)], "render", d) for k, d in enumerate(l0)]
    ld = gen.docs("LD", tier, rep, wrapname="WrapD")
    sj += [(cfgs[(0, 5)[k % 2]], "render", d) for k, d in enumerate(ld)]
    # ... and every emphasis sentence of MCEmphGen (runs of * _ ~ of length 1-4 between words and punctuation)
    es = gen.emphasis_sentences(rep)
    sj += [(cfgs[(0, 5)[k % 2]], "render", d) for k, d in enumerate(es)]
    sk = C.pmap(skeleton_job, sj, chunk=2000)
    seen = {}
    for j, x in zip(sj, sk):
        seen.setdefault((j[0], x), j)
    jobs += list(seen.values())
    rep.cov["bounds_skeletons"] = {"L2_and_LD_rendered": len(sj), "LD_delimiter_dense": len(ld), "emphasis_sentences": len(es), "distinct_tag_structures": len(seen)}
    # a few documents at scale (size thresholds: padded table cells, long lists, deep nesting)
    scale = ["|" + "h|" * 256 + "\n|" + "-|" * 256 + "\n" + "x\n" * 262,
             "|" + "<b>|" * 1000 + "\n|" + "-|" * 1000 + "\n" + "|&|\n" * 70,
             "".join("- i%d <i> &amp; `c`\n" % k for k in range(3000)),
             "> " * 150 + "deep <q>\n",
             ("word &lt; <b> *e* [l](/u \"t\") " * 3000) + "\n"]
    jobs += [(cfgs[(0, 5)[k % 2]], "render", d) for k, d in enumerate(scale)]
    rep.cov["bounds"] = {"scale_docs": len(scale), "LM_placed": len(lm), "L1": len(l1), "L2": len(l2), "configs_html_off": len(cfgs),
                         "executed": len(jobs)}
    rep.cov["exhaustive"] = False
    return jobs


def run(tier, rep):
    jobs = build_jobs(tier, rep)
    res = C.pmap(record, jobs, chunk=300)
    traces = [r[0] for r in res]
    nchars = sum(len(t["html"]) for t in traces)
    verdicts, st = C.validate_traces("HtmlOutTrace", traces, shard=4000, heap="8g")
    rep.tlc_stats("HtmlOutTrace", st, len(traces))
    for job, t, (v, pos) in zip(jobs, traces, verdicts):
        if v != "ok":
            out = "".join(map(chr, t["html"]))
            rep.violation(f"{v}:{job[1]}:{job[0]}:{json.dumps(job[2])}",
                          {"engine": "trace", "module": "HtmlOutTrace", "clause": v, "char_index": pos - 2,
                           "input": {"config": json.loads(job[0]), "api": job[1], "doc": job[2]},
                           "output": out, "around": out[max(0, pos - 22): pos + 10]})
    rep.sample({"config": json.loads(jobs[5][0]), "doc": jobs[5][2], "output": "".join(map(chr, traces[5]["html"]))})
    rep.cov["evaluations"] = len(jobs)
    rep.cov["distinct_nontrivial"] = len({j for j, r in zip(jobs, res) if r[1] >= 2})
    rep.cov["output_code_points"] = nchars
    rep.cov["rule"] = ("case = (html-off configuration, api, document); non-trivial = the output contains at least two tags; "
                       "each case is one TLC behaviour with one step per output code point")
    rep.assumptions += ["default HTML renderer, no highlight callback, no plugins (as the property's quantifier states)",
                        "taint is approximated by twins: every vocabulary-looking input fragment has an out-of-vocabulary sibling in the same placement"]


def replay(case, rep):
    i = case["input"]
    t, _ = record((gen.cfg_key(i["config"]), i["api"], i["doc"]))
    v, _ = C.validate_traces("HtmlOutTrace", [t])
    if v[0][0] != "ok":
        rep.violation(case.get("key", "replay"), case)


def selftest():
    t, _ = record((configs()[0], "render", "a <b> [x](/u \"t\") `c`\n"))
    v, _ = C.validate_traces("HtmlOutTrace", [t])
    assert v[0][0] == "ok", (v, "".join(map(chr, t["html"])))
    s = "".join(map(chr, t["html"])).replace("&lt;b&gt;", "<b>")
    v, _ = C.validate_traces("HtmlOutTrace", [{"html": C.cps(s)}])
    assert v[0][0] == "unknown_element", v
    print("selftest C04 ok:", v[0])
    return 0
