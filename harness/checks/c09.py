"""C09 - backslash-escaping makes any text literal in every inline context.

Texts t from LiteralGen.tla (alphabet: ASCII punctuation, inner blanks, non-ASCII letters /
punctuation / blanks / format characters, control characters for the backslash form) in four
spellings (backslash before every ASCII punctuation character; decimal, hexadecimal and named
character references) placed in ten contexts (paragraph, ATX heading, emphasis, strong emphasis, strikethrough, link text, image
description, link title in two quote styles, table cell) under commonmark and js-default with
table/strikethrough on.  LiteralTrace.tla recomputes the escaped spelling and the document,
evaluates the quantifier's side conditions, computes the expected HTML and requires equality.
"""
from __future__ import annotations

import json

from .. import common as C
from .. import gen

PID = "C09"
PRESETS = [
    ("commonmark", {"preset": "commonmark", "on": ["table", "strikethrough"], "off": [], "opts": []}, 1),
    ("js-default", {"preset": "js-default", "on": [], "off": [], "opts": []}, 0),
]
_K = {}
_MD = {}


def consts():
    if not _K:
        r = C.run_tlc("LiteralConst", "LiteralConst.cfg", workers=1, allow_violation=False, timeout=120)
        line = [l for l in r.out.splitlines() if l.startswith('"{')][0]
        _K.update(json.loads(json.loads(line)))
    return _K


def header():
    k = consts()
    ctx = []
    for c in k["contexts"]:
        md = gen.expand(c["md"])
        mpre, mpost = md.split("@")
        h = gen.expand(c["html"])
        hpre, rest = h.split("@")
        if "{x}" in rest:
            a, b = rest.split("{x}")
            hmid = [C.cps(a), C.cps(a + " /")]
            rest = b
        else:
            hmid = [[], []]
        ctx.append({"name": c["name"], "mpre": C.cps(mpre), "mpost": C.cps(mpost), "hpre": C.cps(hpre), "hmid": hmid,
                    "hpost": C.cps(rest)})
    return {"ctx": ctx, "named": [[n[0], C.cps(n[1])] for n in k["named"]]}


def spell(c, form, named):
    ch = chr(c)
    if form == "bs":
        return ("\\" + ch) if (33 <= c <= 47 or 58 <= c <= 64 or 91 <= c <= 96 or 123 <= c <= 126) else ch
    if form == "hex":
        return "&#x%x;" % c
    if form == "named" and c in named:
        return "&%s;" % named[c]
    return "&#%d;" % c


def record(job):
    t, form, ci, pi = job
    k = consts()
    named = {n[0]: n[1] for n in k["named"]}
    c = k["contexts"][ci]
    name, cfg, xh = PRESETS[pi]
    if pi not in _MD:
        _MD[pi] = gen.make_md(cfg)
    esc = "".join(spell(x, form, named) for x in t)
    doc = gen.expand(c["md"]).replace("@", esc)
    out = _MD[pi].render(doc)
    return {"t": t, "form": form, "ctx": ci + 1, "xhtml": xh, "doc": C.cps(doc), "html": C.cps(out)}


def run(tier, rep):
    r = C.run_tlc("LiteralGen", f"LiteralGen_{tier}.cfg", allow_violation=False, workers=8, timeout=1200)
    rep.tlc(f"LiteralGen[{tier}]", r)
    alpha = consts()["alphabet"]
    ts = []
    for line in r.out.splitlines():
        if line.startswith('"['):
            idx = json.loads(json.loads(line))
            if idx:
                ts.append([alpha[i - 1] for i in idx])
    q = tier == "quick"
    nctx = len(consts()["contexts"])
    jobs = []
    for k, t in enumerate(ts):
        for f, form in enumerate(("bs", "dec", "hex", "named")):
            ctxs = range(nctx)
            for ci in ctxs:
                jobs.append((t, form, ci, (k + ci + f) % 2))
    traces = C.pmap(record, jobs, chunk=500)
    verdicts, st = C.validate_traces("LiteralTrace", traces, header=header(), shard=20000)
    rep.tlc_stats("LiteralTrace", st, len(traces))
    held, skips = 0, {}
    ctxn = [c["name"] for c in consts()["contexts"]]
    for job, tr, (v, pos) in zip(jobs, traces, verdicts):
        if v == "ok":
            held += 1
        elif v.startswith("skip:"):
            skips[v] = skips.get(v, 0) + 1
        elif v.startswith("harness:"):
            raise C.MachineryError(f"trace rejected as malformed: {v} on {job!r}")
        else:
            rep.violation(f"{v}:{ctxn[job[2]]}:{job[1]}:{PRESETS[job[3]][0]}:{job[0]}",
                          {"engine": "trace", "module": "LiteralTrace", "clause": v, "t": job[0], "form": job[1],
                           "context": ctxn[job[2]], "ctx_index": job[2], "preset_index": job[3],
                           "doc": "".join(map(chr, tr["doc"])), "html": "".join(map(chr, tr["html"]))})
    if held < 5000:
        raise C.MachineryError(f"only {held} instances passed the guards")
    rep.sample({"t": jobs[900][0], "form": jobs[900][1], "context": ctxn[jobs[900][2]], "doc": "".join(map(chr, traces[900]["doc"]))})
    rep.cov["evaluations"] = len(traces)
    rep.cov["distinct_nontrivial"] = held
    rep.cov["guard_skips"] = skips
    rep.cov["bounds"] = {"texts": len(ts), "forms": 4, "contexts": nctx, "presets": 2}
    rep.cov["rule"] = "case = (t, spelling, context, preset); non-trivial = the quantifier's side conditions hold and the HTML was compared"
    rep.cov["exhaustive"] = not q


def replay(case, rep):
    t = record((case["t"], case["form"], case["ctx_index"], case["preset_index"]))
    v, _ = C.validate_traces("LiteralTrace", [t], header=header())
    if not (v[0][0] == "ok" or v[0][0].startswith("skip:")):
        rep.violation(case.get("key", "replay"), case)


def selftest():
    t = record(([42, 97, 38], "bs", 4, 0))
    v, _ = C.validate_traces("LiteralTrace", [t], header=header())
    assert v[0][0] == "ok", (v, "".join(map(chr, t["doc"])), "".join(map(chr, t["html"])))
    t["html"] = C.cps("".join(map(chr, t["html"])).replace("*a", "a"))
    v, _ = C.validate_traces("LiteralTrace", [t], header=header())
    assert v[0][0] == "not_literal", v
    print("selftest C09 ok:", v[0])
    return 0
