"""C01 - parsing and rendering are total: no input crashes or hangs the library.

E1: Progress.tla (loop contract => linear termination; without the fallback rule it fails).
E2: inputs from DocGen.tla (characters, line shapes, inline fragments in inline wrappers, byte
    fragments for the CLI, deep-nesting families, long simulated documents, every prefix of a
    sample) and the repository's own fixture inputs x configurations from ConfigGen.tla, through
    all four entry points and the command-line entry point.
E3: every call is recorded (outcome; for observed runs also every dispatch of the block and inline
    rule chains, seen by spy rules at the head of the chains) and validated by TLC against
    ProgressTrace.tla.  Two stages: the bulk runs plainly under a wall-clock guard; anything the
    guard stops is re-run under a deterministic step budget, so that a hang becomes the verdict
    `no_progress_budget` and a slow machine does not.
"""
from __future__ import annotations

import contextlib
import glob
import io
import json
import os
import random
import re
import signal
import sys
import tempfile

from .. import common as C
from .. import gen

PID = "C01"
TERM = ["paragraph", "reference", "blockquote", "list"]
_MD, _MDS = {}, {}


class Budget(BaseException):
    pass


class Guard(BaseException):
    pass


def _alarm(signum, frame):
    raise Guard()


def allowed_for(cfg, src_ok=True):
    a = []
    if any(k == "linkify" and v == "T" for k, v in cfg.get("opts", [])):
        a.append("ModuleNotFoundError")
    if not src_ok:
        a.append("TypeError")
    return a


def maxn(cfg):
    for k, v in cfg.get("opts", []):
        if k == "maxNesting":
            return int(v)
    return 100 if cfg["preset"] == "js-default" else 20


def md_plain(cfgkey):
    if cfgkey not in _MD:
        _MD[cfgkey] = gen.make_md(json.loads(cfgkey))
    return _MD[cfgkey]


class Spy:
    def __init__(self):
        self.ev, self.sids, self.n, self.cap, self.keep = [], {}, 0, 0, []

    def sid(self, st):
        if id(st) not in self.sids:
            self.keep.append(st)  # a strong reference keeps id() unique for the duration of the call
            self.sids[id(st)] = len(self.sids) + 1
        return self.sids[id(st)]

    def tick(self):
        self.n += 1
        if self.n > self.cap:
            raise Budget()


def md_spied(cfgkey):
    if cfgkey not in _MDS:
        md = gen.make_md(json.loads(cfgkey))
        spy = Spy()

        def verif_spy_b(state, startLine, endLine, silent):
            spy.tick()
            spy.ev.append(["d", "b", spy.sid(state), state.level, startLine, endLine, 1 if silent else 0])
            return False

        def verif_spy_i(state, silent):
            spy.tick()
            spy.ev.append(["d", "i", spy.sid(state), state.level, state.pos, state.posMax, 1 if silent else 0])
            return False

        md.block.ruler.before(md.block.ruler.get_all_rules()[0], "verif_spy_b", verif_spy_b, {"alt": list(TERM)})
        md.inline.ruler.before(md.inline.ruler.get_all_rules()[0], "verif_spy_i", verif_spy_i)
        _MDS[cfgkey] = (md, spy)
    return _MDS[cfgkey]


def _invoke(md, api, doc, env):
    if api == "cli":
        from markdown_it.cli import parse as cli

        fd, path = tempfile.mkstemp(prefix="verif-cli-")
        try:
            os.write(fd, doc)
            os.close(fd)
            # standard output as the command really has it: a UTF-8 text stream (a str that cannot be encoded
            # makes print() raise)
            with contextlib.redirect_stdout(io.TextIOWrapper(io.BytesIO(), encoding="utf-8", errors="strict")):
                cli.main([path])
        finally:
            os.unlink(path)
        return
    if env is None:
        getattr(md, api)(doc)
    else:
        getattr(md, api)(doc, env)


import multiprocessing as _mp

_GUARDS = _mp.Value("i", 0)     # shared by the forked workers: circuit breaker for stage 1
GUARD_S = 6.0
BREAK_AT = 48


def plain(job):
    """Stage 1: outcome only, under a wall-clock guard (the guard decides nothing by itself).
    Once the guard has fired BREAK_AT times the remaining calls are skipped (and reported as not
    judged): the suspects are then re-run deterministically and decide the run."""
    cfgkey, api, doc, env, src_ok = job
    cfg = json.loads(cfgkey)
    if _GUARDS.value >= BREAK_AT:
        return {"allowed": [], "maxn": 0, "ev": [["o", "skipped", ""]]}
    md = md_plain(cfgkey)
    signal.signal(signal.SIGALRM, _alarm)
    signal.setitimer(signal.ITIMER_REAL, GUARD_S)
    try:
        _invoke(md, api, doc, env)
        out = ["o", "returned", ""]
    except Guard:
        out = ["o", "guard", ""]
        with _GUARDS.get_lock():
            _GUARDS.value += 1
    except RecursionError:
        out = ["o", "raised", "RecursionError"]
    except BaseException as ex:  # noqa
        out = ["o", "raised", type(ex).__name__]
    finally:
        signal.setitimer(signal.ITIMER_REAL, 0)
    return {"allowed": allowed_for(cfg, src_ok), "maxn": maxn(cfg), "ev": [out]}


def observed(job):
    """Stage 2 / sample: dispatch events from spy rules, under a deterministic step budget."""
    cfgkey, api, doc, env, src_ok = job[:5]
    cfg = json.loads(cfgkey)
    if api == "cli":
        return plain(job[:5])
    md, spy = md_spied(cfgkey)
    spy.ev, spy.sids, spy.n, spy.keep = [], {}, 0, []
    n = len(doc) if isinstance(doc, (str, bytes)) else 1
    spy.cap = 200000 + 3000 * n
    lines = [0]
    lib = os.path.join(os.path.realpath(C.REPO), "markdown_it") + os.sep
    linecap = 3000000 + 20000 * n

    def tr(frame, event, arg):
        if not frame.f_code.co_filename.startswith(lib):
            return None
        return loc

    def loc(frame, event, arg):
        if event == "line":
            lines[0] += 1
            if lines[0] > linecap:
                raise Budget()
        return loc

    use_lines = job[5] if len(job) > 5 else False
    if use_lines:
        sys.settrace(tr)
    else:
        signal.signal(signal.SIGALRM, _alarm)
        signal.setitimer(signal.ITIMER_REAL, 2 * GUARD_S)
    try:
        _invoke(md, api, doc, env)
        out = ["o", "returned", ""]
    except Budget:
        out = ["o", "budget", ""]
    except Guard:
        # not judged by the clock: repeat under the deterministic line budget
        return observed(tuple(job[:5]) + (True,))
    except BaseException as ex:  # noqa
        out = ["o", "raised", type(ex).__name__]
    finally:
        sys.settrace(None)
        signal.setitimer(signal.ITIMER_REAL, 0)
    ev = spy.ev[:4000] + [out]
    return {"allowed": allowed_for(cfg, src_ok), "maxn": maxn(cfg), "ev": ev}


def fixture_docs():
    from markdown_it.utils import read_fixture_file

    out = []
    for p in sorted(glob.glob(os.path.join(C.REPO, "tests", "**", "*.md"), recursive=True)):
        try:
            for t in read_fixture_file(p):
                if len(t) >= 3:
                    out.append(t[2])
        except Exception:
            continue
    spec = os.path.join(C.REPO, "tests", "test_cmark_spec", "commonmark.json")
    if os.path.exists(spec):
        out += [e["markdown"] for e in json.load(open(spec))]
    return [d for d in out if isinstance(d, str)]


_BX = re.compile(rb"\{x\+([0-9a-f]{2})\}")


def build_jobs(tier, rep):
    rnd = random.Random(C.SEED)
    l0 = gen.docs("L0", tier, rep)
    l1 = gen.docs("L1", tier, rep)
    l2 = gen.docs("L2", tier, rep)
    lb = [_BX.sub(lambda m: bytes([int(m.group(1), 16)]), d.encode("ascii")) for d in gen.docs("LB", tier, rep)]
    rs = C.run_tlc("MCDocGen", "DocGen_L1_sim.cfg", simulate=f"num={60 if tier == 'quick' else 600}", depth=40,
                   seed=C.SEED + 11, workers=1, allow_violation=False, timeout=600)
    rep.tlc("DocGen[L1 simulate, depth 40]", rs)
    alpha = gen.alphabet("L1")
    longdocs = []
    for line in rs.out.splitlines():
        if line.startswith('"{'):
            longdocs.append("\n".join(alpha[i - 1] for i in json.loads(json.loads(line))["d"]))
    cfgs = gen.configs(tier, rep)
    base = [gen.cfg_key(c) for c in gen.BASE_CONFIGS]
    linkify = gen.cfg_key({"preset": "js-default", "on": ["linkify"], "off": [], "opts": [["linkify", "T"]]})
    allcfg = [gen.cfg_key(c) for c in cfgs]
    q = tier == "quick"
    n0, n1, n2 = (len(l0), len(l1), len(l2)) if q else (len(l0), len(l1), 400000)
    short1 = [d for d in l1 if d.count("\n") <= 2]       # <= 3 lines: under every base configuration
    docs = gen.sample(l0, n0, C.SEED) + gen.sample(l1, n1, C.SEED + 1, keep_short=2000) + gen.sample(l2, n2, C.SEED + 2)
    docs += [d + "\n\n[r]: /u 't'\n" for d in gen.sample(l2, 5000 if q else 50000, C.SEED + 3)]
    # prefix closure of a sample: input ending at any point inside any construct
    for d in gen.sample(l1 + l2, 1500 if q else 20000, C.SEED + 4) + longdocs[:: (8 if q else 2)]:
        docs += [d[:k] for k in range(len(d))]
    docs += longdocs
    fx = fixture_docs()
    docs += fx
    # Unicode twins of the character strings and line-shape documents (digit / space / line-break / letter /
    # punctuation look-alikes that general-purpose string predicates classify like their ASCII counterpart)
    tw = gen.twins([d for d in l0 if len(d) <= 3], C.SEED, per_doc=2) \
        + gen.twins(gen.sample(l1, 40000 if q else 400000, C.SEED + 6, keep_short=3000), C.SEED + 1, per_doc=2) \
        + gen.twins(gen.sample(l2, 15000 if q else 150000, C.SEED + 7), C.SEED + 2, per_doc=1)
    docs += tw
    # product line shapes (container prefix x leaf): every one- and two-line document
    l3 = gen.l3_docs()
    docs += l3 if not q else gen.sample(l3, 330000, C.SEED + 8, keep_short=1000)
    docs += [d + "\n" for d in gen.sample(l3, 60000 if q else 300000, C.SEED + 9)]
    # nesting families
    nest, sizes = gen.alphabet("Nest"), gen.alphabet("NestSizes")
    fam = [u * n + m + c * n for (u, m, c) in nest for n in sizes]
    jobs = []
    apis = ["render", "parse", "renderInline", "parseInline"]
    for k, d in enumerate(docs):
        ck = base[k % len(base)] if k % 4 else allcfg[(k // 4) % len(allcfg)]
        api = apis[0] if k % 5 else apis[(k // 5) % 4]
        jobs.append((ck, api, d, None if k % 2 else {}, True))
    for d in short1:
        for ck in base:
            jobs.append((ck, "render", d, None, True))
    nestcfg = base[:3] + [gen.cfg_key({"preset": p, "on": [], "off": [], "opts": [["maxNesting", m]]})
                          for p in ("commonmark", "js-default") for m in ("1", "2", "5")]
    for d in fam:
        for ck in nestcfg:
            jobs.append((ck, "render", d, None, True))
    for k, d in enumerate(gen.sample(l1 + l2, 3000 if q else 30000, C.SEED + 5)):
        jobs.append((linkify, "render", d, None, True))
    for src in (None, 5, b"x", ["a"], 1.5):
        for api in apis:
            jobs.append((base[0], api, src, None, False))
    for envv in ([], "s", 5):
        for api in apis:
            jobs.append((base[1], api, "a", envv, False))
    for b in lb:
        jobs.append((base[0], "cli", b, None, True))
    rep.cov["bounds"] = {"L0": len(l0), "L1": len(l1), "L2": len(l2), "LB": len(lb), "long_docs": len(longdocs),
                         "fixtures": len(fx), "unicode_twin_docs": len(tw), "L3_product_shapes_docs": len(l3), "nesting_family_docs": len(fam), "configs_enumerated": len(cfgs),
                         "calls": len(jobs)}
    return jobs, fam


def _report(rep, jobs, verdicts, label):
    for job, (v, pos) in zip(jobs, verdicts):
        if v != "ok":
            doc = job[2]
            rep.violation(f"{v}:{job[1]}:{job[0]}:{doc!r}"[:600],
                          {"engine": "trace", "module": "ProgressTrace", "clause": v, "stage": label,
                           "input": {"config": json.loads(job[0]), "api": job[1],
                                     "doc": doc if isinstance(doc, str) else repr(doc),
                                     "doc_is_str": isinstance(doc, str), "env": repr(job[3])}})


def run(tier, rep):
    r = C.run_tlc("Progress", "Progress.cfg", allow_violation=False, workers=8)
    rep.tlc("Progress[fallback]", r)
    rn = C.run_tlc("Progress", "Progress_nofallback.cfg", workers=8)
    if rn.ok or rn.violated != "WorkLinear":
        raise C.MachineryError("Progress without fallback no longer violates WorkLinear (vacuity guard)")
    rep.tlc("Progress[no fallback, expected counter-example]", rn)
    jobs, fam = build_jobs(tier, rep)
    # stage 1: plain (in slices: bounded memory in the thorough tier)
    all_jobs, jobs = jobs, []
    acc = {"generated": 0, "distinct": 0, "shards": 0, "tlc_wall": 0.0}
    nsuspects = nskipped = nconfirmed = reran = ntraces = 0
    for lo in range(0, len(all_jobs), 500000):
        sl = all_jobs[lo: lo + 500000]
        traces = C.pmap(plain, sl, chunk=500, limit=0)
        suspects = [k for k, t in enumerate(traces) if t["ev"][-1][1] == "guard"]
        skipped = [k for k, t in enumerate(traces) if t["ev"][-1][1] == "skipped"]
        suspects.sort(key=lambda k: len(sl[k][2]) if isinstance(sl[k][2], (str, bytes)) else 0)
        rerun = suspects[:max(0, 48 - reran)]
        reran += len(rerun)
        # deterministic re-run under a step budget decides; guard hits beyond the first 48 are not judged
        rj = [tuple(sl[k]) + (True,) for k in rerun]
        for k, t in zip(rerun, C.pmap(observed, rj, chunk=1, limit=0) if len(rj) > 2 else [observed(j) for j in rj]):
            traces[k] = t
        nconfirmed += sum(1 for k in rerun if traces[k]["ev"][-1][1] == "budget")
        nsuspects += len(suspects)
        nskipped += len(skipped)
        drop = set(skipped) | set(suspects[len(rerun):])
        if drop:
            sl = [j for k, j in enumerate(sl) if k not in drop]
            traces = [t for k, t in enumerate(traces) if k not in drop]
        if not traces:          # everything in this slice was skipped after a confirmed hang in an earlier one
            continue
        verdicts, st = C.validate_traces("ProgressTrace", traces, shard=40000)
        for kk in acc:
            acc[kk] += st[kk]
        ntraces += len(traces)
        _report(rep, sl, verdicts, "plain")
        jobs += sl
        del traces, verdicts
    del all_jobs
    if nskipped and not nconfirmed:
        raise C.MachineryError(f"wall-clock guard fired {nsuspects} times but no hang was confirmed under the step budget")
    rep.tlc_stats("ProgressTrace[outcomes]", acc, ntraces)
    # stage 2: observed dispatch loops on every family/long document and a seeded 5 % sample
    rnd = random.Random(C.SEED + 9)
    famset = set(fam)
    ojobs = [j for j in jobs if isinstance(j[2], str) and j[4] and (j[2] in famset or len(j[2]) > 150 or rnd.random() < 0.05)]
    if tier == "quick" and len(ojobs) > 30000:
        ojobs = ojobs[:30000]
    otraces = C.pmap(observed, ojobs, chunk=100, limit=0)
    verdicts, st = C.validate_traces("ProgressTrace", otraces, shard=3000)
    rep.tlc_stats("ProgressTrace[dispatch loops]", st, len(otraces))
    _report(rep, ojobs, verdicts, "observed")
    nd = sum(len(t["ev"]) - 1 for t in otraces)
    rep.sample({"config": json.loads(jobs[3][0]), "api": jobs[3][1], "doc": jobs[3][2]})
    rep.sample({"config": json.loads(ojobs[0][0]), "api": ojobs[0][1], "doc": ojobs[0][2][:80], "dispatch_events": len(otraces[0]["ev"]) - 1})
    rep.cov["evaluations"] = len(jobs) + len(ojobs)
    rep.cov["distinct_nontrivial"] = len({(j[0], j[1], repr(j[2])) for j in jobs if j[2]})
    rep.cov["rule"] = ("case = (configuration, entry point, source, env); sources enumerated by DocGen.tla and subsampled with "
                       "the run seed, plus prefixes, nesting families, simulated long documents, fixture inputs, byte files; "
                       "non-trivial = distinct case with a non-empty source")
    rep.cov["bounds"].update({"observed_calls": len(ojobs), "dispatch_events": nd, "guard_reruns": nsuspects})
    rep.cov["exhaustive"] = False
    rep.assumptions += ["linkify-it-py is not installed: linkifier paths run only up to the documented ModuleNotFoundError",
                        "surrogate code points are excluded (as the property's quantifier does)",
                        "a wall-clock guard (20 s) only selects calls for a deterministic re-run under a step budget"]


def replay(case, rep):
    i = case["input"]
    if not i.get("doc_is_str", True):
        print("replay of non-str inputs is not supported; rerun the check")
        return
    job = (gen.cfg_key(i["config"]), i["api"], i["doc"], None, True, True)
    t = observed(job)
    v, _ = C.validate_traces("ProgressTrace", [t])
    if v[0][0] != "ok":
        rep.violation(case.get("key", "replay"), case)


def selftest():
    job = (gen.cfg_key(gen.BASE_CONFIGS[0]), "render", "> - a\n> - b *c*\n", None, True)
    t = observed(job)
    v, _ = C.validate_traces("ProgressTrace", [t])
    assert v[0][0] == "ok", v
    ds = [e for e in t["ev"] if e[0] == "d" and e[6] == 0 and e[1] == "i"]
    pair = [(a, b) for a, b in zip(ds, ds[1:]) if a[2] == b[2]]
    assert pair
    pair[0][1][4] = pair[0][0][4]
    v, _ = C.validate_traces("ProgressTrace", [t])
    assert v[0][0] == "cursor_did_not_advance", v
    print("selftest C01 ok:", v[0])
    return 0
