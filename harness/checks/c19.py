"""C19 - typographic replacements are local to text and never touch structure or literals.

Inputs: DocGen.tla documents over quote-rich fragments (straight quotes next to code spans, links,
emphasis, raw HTML, autolinks, breaks; quotes written as backslash escapes and entities; replacement
triggers) and inline-fragment documents x {replacements, smartquotes, both} x quotes values (4-char
string, list of four strings of lengths 0-3 with metacharacters) x presets.  The two token streams
(typographer off / on) are validated by TLC against the nondeterministic lock-step acceptor
TypographerTrace.tla.
"""
from __future__ import annotations

import json

from .. import common as C
from .. import gen
from .. import algebra as A

PID = "C19"
MODES = {"rp": ["smartquotes"], "sq": ["replacements"], "both": []}
QUOTES = {"default": None, "q4": "q4", "qlist": "qlist", "qempty": "qempty", "qeven": "qeven"}


def cfgs_for(preset, mode, quotes):
    opts = [["typographer", "T"]] + ([["quotes", quotes]] if quotes != "default" else [])
    on_rules = ["replacements", "smartquotes"] if preset != "js-default" else []
    on = {"preset": preset, "on": [r for r in on_rules if r not in MODES[mode]], "off": MODES[mode], "opts": sorted(opts)}
    off = dict(on, opts=sorted([o for o in opts if o[0] != "typographer"]))
    off2 = dict(off, off=sorted(set(off["off"]) | {"text_join_placeholder"}))
    return gen.cfg_key(on), gen.cfg_key(off)


def flat(tokens, out, auto=0):
    for t in tokens:
        # an autolink: marked by the autolink rule in markup and in info (either is enough: the text between the
        # two tokens is the address itself, whatever a later rule reads off the marker)
        if t.type == "link_open" and (t.info == "auto" or t.markup == "autolink"):
            auto += 1
        d = t.as_dict(children=False)
        d.pop("children", None)
        content = d.pop("content") if t.type in ("text", "text_special") else None
        out.append((t.type, 1 if (auto and t.type == "text") else 0, A.jstr(d), content))
        if t.type == "link_close" and (t.info == "auto" or t.markup == "autolink"):
            auto -= 1
        if t.children:
            flat(t.children, out, 0)
    return out


def prot_masks(md_off, doc):
    """Per merged text token of the off-parse: which code points come from escapes / entities.
    Observed by parsing with the core rule text_join switched off (public configuration)."""
    md_off.core.ruler.disable("text_join")
    try:
        toks = md_off.parse(doc)
    finally:
        md_off.core.ruler.enable("text_join")
    masks = []

    def walk(ts):
        cur = None
        for t in ts:
            if t.type in ("text", "text_special"):
                if cur is None:
                    cur = []
                    masks.append(cur)
                cur.extend([1 if t.type == "text_special" else 0] * len(t.content))
            else:
                cur = None
                if t.children:
                    walk(t.children)
                    cur = None
    walk(toks)
    return masks


import re as _re

_ESC = _re.compile(r"\\[!-/:-@\[-`{-~]|&(?:#[0-9]{1,7}|#[xX][0-9a-fA-F]{1,6}|[A-Za-z][A-Za-z0-9]{1,31});")
_KINDS = [("\u00a9", _re.compile(r"\([cC]\)")), ("\u00ae", _re.compile(r"\([rR]\)")), ("\u2122", _re.compile(r"\([tT][mM]\)")),
          ("\u00b1", _re.compile(r"\+-")), ("\u2026", _re.compile(r"\.{2,}")), ("\u2013\u2014", _re.compile(r"--"))]


_LOSSES = [("!?", _re.compile(r"[!?]{4,}"), 3), (",", _re.compile(r",{2,}"), 1), (".", _re.compile(r"\.{2,}"), 0),
           ("-", _re.compile(r"-{2,}|\+-"), 0), ("+", _re.compile(r"\+-"), 1)]


def record(job):
    preset, mode, quotes, doc = job
    kon, koff = cfgs_for(preset, mode, quotes)
    mon, moff = A.md_for(kon), A.md_for(koff)
    fon, foff = flat(mon.parse(doc), []), flat(moff.parse(doc), [])
    masks = [m for m in prot_masks(moff, doc) if m]       # one mask per non-empty merged text run
    toks, mi = [], 0
    for a, b in zip(foff, fon):
        text = 1 if a[0] == "text" else 0
        co = C.cps(a[3]) if a[3] is not None else []
        cn = C.cps(b[3]) if b[3] is not None else []
        prot = []
        if text and co:
            if mi < len(masks) and len(masks[mi]) == len(co):
                prot = masks[mi]
            else:
                # the off-parse and its text_join-less twin do not line up (only possible when text_join itself
                # misbehaves): no position is treated as protected, the acceptor then judges the streams as they are
                prot = [0] * len(co)
            mi += 1
        toks.append({"text": text, "auto": a[1], "roff": a[2], "ron": b[2], "coff": co, "con": cn, "prot": prot})
    # source-side bound on the replacements (independent of how the parser tokenises escapes and entities):
    # per kind, the signs the typographer ADDS cannot outnumber the triggers written LITERALLY in the source
    lit = _ESC.sub("\x01", doc)
    ton = "".join(b[3] for b in fon if b[3] is not None)
    toff = "".join(a[3] for a in foff if a[3] is not None)
    rw = []
    if mode != "sq":
        for sign, pat in _KINDS:
            rw.append([sum(ton.count(c) for c in sign) - sum(toff.count(c) for c in sign), len(pat.findall(lit))])
        # ... and the characters it REMOVES cannot outnumber what the literal trigger runs may lose
        for chars, pat, keep in _LOSSES:
            lost = sum(toff.count(c) for c in chars) - sum(ton.count(c) for c in chars)
            rw.append([lost, sum(max(0, len(m) - keep) for m in pat.findall(lit))])
    # the quote strings as CONFIGURED (not as the instance reports them after storing the option)
    q = gen.QUOTES[quotes] if quotes != "default" else "\u201c\u201d\u2018\u2019"
    return {"rw": rw, "sq": 0 if mode == "rp" else 1, "rp": 0 if mode == "sq" else 1, "q": [C.cps(q[x]) for x in range(4)],
            "toks": toks, "non": len(fon) if len(fon) == len(foff) else -1}, sum(1 for a, b in zip(foff, fon) if a[3] != b[3])


def run(tier, rep):
    q = tier == "quick"
    lq = gen.docs("LQ", tier, rep)
    l2 = gen.docs("L2", tier, rep)
    docs = gen.sample(lq, 26000 if q else 400000, C.SEED, keep_short=2000) + gen.sample(l2, 8000 if q else 100000, C.SEED + 1) \
        + gen.twins(gen.sample(lq, 3000 if q else 40000, C.SEED + 2), C.SEED, per_doc=1)
    combos = [(p, m, qq) for p in ("commonmark", "js-default") for m in MODES for qq in QUOTES]
    jobs = [combos[(k * 7 + 1) % len(combos)] + (d + ("\n" if k % 2 else ""),) for k, d in enumerate(docs)]   # 7: coprime to 30
    res = C.pmap(record, jobs, chunk=300)
    traces = [x[0] for x in res]
    verdicts, st = C.validate_traces("TypographerTrace", traces, shard=3000, heap="8g", existential=True)
    rep.tlc_stats("TypographerTrace", st, len(traces))
    changed = sum(1 for x in res if x[1])
    for job, (v, pos) in zip(jobs, verdicts):
        if v != "ok":
            rep.violation(f"{v}:{job[0]}:{job[1]}:{job[2]}:{json.dumps(job[3])}",
                          {"engine": "trace", "module": "TypographerTrace", "clause": v, "token_index": pos,
                           "input": {"preset": job[0], "mode": job[1], "quotes": job[2], "doc": job[3]}})
    if changed < 2000:
        raise C.MachineryError(f"the typographer changed only {changed} documents: generator too weak")
    rep.sample({"preset": jobs[11][0], "mode": jobs[11][1], "quotes": jobs[11][2], "doc": jobs[11][3]})
    rep.cov["evaluations"] = len(jobs)
    rep.cov["distinct_nontrivial"] = changed
    rep.cov["bounds"] = {"LQ": len(lq), "L2": len(l2), "combos": len(combos)}
    rep.cov["rule"] = "case = (preset, rule subset, quotes value, document); non-trivial = the typographer changed at least one text token"
    rep.cov["exhaustive"] = False
    rep.assumptions += ["which code points were written as escapes / entities is observed on the off-parse with the core rule text_join disabled",
                        "the replacements walk admits the documented rewrite shapes at any unprotected position (no model of their context conditions)"]


def replay(case, rep):
    i = case["input"]
    t, _ = record((i["preset"], i["mode"], i["quotes"], i["doc"]))
    v, _ = C.validate_traces("TypographerTrace", [t], existential=True)
    if v[0][0] != "ok":
        rep.violation(case.get("key", "replay"), case)


def selftest():
    t, n = record(("commonmark", "both", "qlist", "\"a\" -- 'b' \\\"c (tm) `\"x\"`\n"))
    assert n >= 1
    v, _ = C.validate_traces("TypographerTrace", [t], existential=True)
    assert v[0][0] == "ok", v
    for tk in t["toks"]:
        if tk["text"] and tk["con"]:
            tk["con"][0] = 122
            break
    v, _ = C.validate_traces("TypographerTrace", [t], existential=True)
    assert v[0][0] == "text_changed_outside_documented_rewrites", v
    print("selftest C19 ok:", v[0])
    return 0
