"""C08 - verbatim content and recorded markup come from the source, unaltered.

Inputs: DocGen line-shape documents (tab/space indentation, containers) x block-rule
configurations, plus generated code spans (CodeSpanGen.tla).  Every code_block / fence /
html_block / hr / heading / list / quote token is serialised with its source lines and validated
by TLC against VerbatimTrace.tla.
"""
from __future__ import annotations

import json
import re

from .. import common as C
from .. import gen
from . import c03

PID = "C08"
KINDS = {"code_block", "fence", "html_block", "hr", "heading_open", "blockquote_open", "bullet_list_open",
         "ordered_list_open", "list_item_open"}


def record(job):
    cfgkey, doc = job
    md = c03.md_for(cfgkey)
    toks = md.parse(doc)
    norm = c03.normalise(doc)
    lines = norm.split("\n")
    if norm.endswith("\n") or norm == "":
        lines = lines[:-1]
    ev = []
    nq = nl = 0
    for k, t in enumerate(toks):
        if t.type == "blockquote_close":
            nq -= 1
        if t.type == "list_item_close":
            nl -= 1
        if t.type in KINDS and t.map is not None:
            e = {"k": "t", "ty": t.type, "map": list(t.map), "cl": [], "mk": C.cps(t.markup), "info": C.cps(t.info),
                 "start": 1, "finfo": [], "nq": nq, "nl": nl, "fin": 1 if t.content.endswith("\n") else 0}
            if t.type in ("code_block", "fence", "html_block"):
                c = t.content
                parts = c.split("\n") if c != "" else []
                if c.endswith("\n"):
                    # the piece after the final line feed is not a line - unless the block runs to the very end of an
                    # input without final line feed and its last source line is empty after the removed prefix
                    last = lines[t.map[1] - 1] if 0 < t.map[1] <= len(lines) else "x"
                    if not (not norm.endswith("\n") and t.map[1] == len(lines) and all(ch in " \t>" for ch in last)):
                        parts = parts[:-1]
                e["cl"] = [C.cps(x) for x in parts]
            if t.type == "ordered_list_open":
                st = t.attrs.get("start", 1)
                e["start"] = st if isinstance(st, int) and 0 <= st < 2 ** 31 else -1
                nxt = toks[k + 1] if k + 1 < len(toks) else None
                if nxt is not None and nxt.type == "list_item_open":
                    e["finfo"] = C.cps(nxt.info)
            ev.append(e)
        if t.type == "blockquote_open":
            nq += 1
        if t.type == "list_item_open":
            nl += 1
    return {"lines": [C.cps(x) for x in lines], "endnl": 1 if norm.endswith("\n") else 0, "ev": ev}, len(ev)


def span_record(job):
    n, body = job
    from markdown_it import MarkdownIt

    md = _span_md()
    text = "".join(map(chr, body))
    doc = "x " + "`" * n + text + "`" * n + " y\n"
    toks = md.parse(doc)
    spans = []
    for t in toks:
        for c in (t.children or []):
            if c.type == "code_inline":
                spans.append(c.content)
    e = {"k": "cs", "n": n, "body": body, "has": 1 if len(spans) == 1 else 0,
         "content": C.cps(spans[0]) if len(spans) == 1 else []}
    return {"lines": [], "endnl": 1, "ev": [e]}


_SM = []


def _span_md():
    if not _SM:
        from markdown_it import MarkdownIt
        _SM.append(MarkdownIt("commonmark"))
    return _SM[0]


def build_jobs(tier, rep):
    l1 = gen.docs("L1", tier, rep)
    cfgs = c03.configs()
    q = tier == "quick"
    interesting = re.compile(r"(^|\n)[ \t>*+\-0-9.)]*(```|~~~|    |\t|<|---|\*\*\*|___|- - -|#|=|>|[-*+] |\d+[.)])")
    pool = [d for d in l1 if interesting.search(d)]
    jobs = []
    short = [d for d in pool if d.count("\n") <= 2]
    for k, d in enumerate(short):
        jobs.append((cfgs[0], d))
        jobs.append((cfgs[1 + k % (len(cfgs) - 1)], d))
    for k, d in enumerate(gen.sample([d for d in pool if d.count("\n") > 2], 80000 if q else 10 ** 9, C.SEED)):
        jobs.append((cfgs[k % len(cfgs)], d))
    # tab/space indentation at every column 0-8 in front of each shape, inside 0-2 containers
    alpha = gen.alphabet("L1")
    inds = ["", " ", "  ", "   ", "    ", "     ", "\t", " \t", "  \t", "   \t", "    \t", "\t ", "\t\t", "        "]
    conts = ["", "> ", ">", "- ", "1. ", "> > ", "> - ", "- > ", ">\t", "-\t", "-   ", "  - "]
    k = 0
    for c in conts:
        for ind in inds:
            for s in alpha:
                first = c + ind + s
                pad = " " * len(c) if c.lstrip().startswith(("-", "1")) else c
                for second in ("", pad + ind + "x", pad + "```", pad + ind + s):
                    d = first + "\n" + second + ("\n" if second else "")
                    jobs.append((cfgs[k % 3], d))
                    k += 1
    # a verbatim block of three lines inside each container prefix (the closing line carries the same prefix)
    must = []
    for c in conts + ["-\t> ", "> -\t", "1.\t>\t", ">\t>\t", " >\t", "  > \t"]:
        pad = " " * len(c.expandtabs(4)) if c.lstrip().startswith(("-", "1")) else c
        if c.lstrip().startswith(("-", "1")) and ">" in c:
            pad = "\t" + c[c.index(">"):] if "\t" in c else " " * c.index(">") + c[c.index(">"):]
        for ind in inds:
            for o, cl in (("```", "```"), ("~~~~", "~~~~"), ("<div>", "</div>"), ("<pre>", "</pre>"), ("    c", "")):
                for tail in ("\n", ""):
                    must.append((cfgs[k % 3], c + o + "\n" + pad + ind + "abc" + "\n" + pad + cl + tail))
                    k += 1
    if q and len(jobs) > 380000:
        jobs = gen.sample(jobs, 380000, C.SEED + 1)
    must += [(cfgs[k % 3], d if k % 4 else d[:-1]) for k, d in enumerate(gen.fence_docs() + gen.container_tail_docs())]
    jobs += must
    # the same blocks with CR / CRLF line ends (the line table is that of the NORMALISED input), mixed within a document too
    enc = []
    for k, (ck, d) in enumerate(must + [(cfgs[0], x) for x in gen.sample(short, 12000 if q else 120000, C.SEED + 4)]):
        if "\n" not in d:
            continue
        if k % 3 == 0:
            e = d.replace("\n", "\r")
        elif k % 3 == 1:
            e = d.replace("\n", "\r\n")
        else:
            parts = d.split("\n")
            e = "".join(x + ("\r", "\n", "\r\n")[(k + j) % 3] for j, x in enumerate(parts[:-1])) + parts[-1]
        enc.append((ck, e))
    jobs += enc
    jobs += [(cfgs[k % len(cfgs)], d + ("\n" if k % 2 else "")) for k, d in enumerate(gen.sample(gen.l3_docs(), 50000 if q else 637602, C.SEED + 3, keep_short=800))]
    tw = gen.twins(gen.sample(pool, 20000 if q else 200000, C.SEED + 2, keep_short=1500), C.SEED, per_doc=2)
    jobs += [(cfgs[k % len(cfgs)], d) for k, d in enumerate(tw)]
    rep.cov["bounds"] = {"L1": len(l1), "with_verbatim_or_markup_shapes": len(pool), "executed": len(jobs)}
    rep.cov["exhaustive"] = False
    return jobs


def run(tier, rep):
    jobs = build_jobs(tier, rep)
    res = C.pmap(record, jobs, chunk=400)
    keep = [(j, r[0]) for j, r in zip(jobs, res) if r[1] > 0]
    verdicts, st = C.validate_traces("VerbatimTrace", [t for _, t in keep], shard=15000)
    rep.tlc_stats("VerbatimTrace[blocks]", st, len(keep))
    for (job, t), (v, pos) in zip(keep, verdicts):
        if v != "ok":
            e = t["ev"][pos - 2]
            rep.violation(f"{v}:{e['ty']}:{job[0]}:{json.dumps(job[1])}",
                          {"engine": "trace", "module": "VerbatimTrace", "clause": v, "token": e["ty"],
                           "input": {"config": json.loads(job[0]), "doc": job[1]}})
    rep.sample({"config": json.loads(keep[5][0][0]), "doc": keep[5][0][1], "tokens_checked": len(keep[5][1]["ev"])})
    # code spans
    r = C.run_tlc("MCCodeSpanGen", f"CodeSpanGen_{tier}.cfg", allow_violation=False, workers=8)
    rep.tlc("CodeSpanGen", r)
    sj = []
    for line in r.out.splitlines():
        if line.startswith('"{'):
            d = json.loads(json.loads(line))
            sj.append((d["n"], d["body"]))
    if len(sj) < 1000:
        raise C.MachineryError("code span generator exported too few bodies")
    st_ = C.pmap(span_record, sj, chunk=400)
    verdicts, st = C.validate_traces("VerbatimTrace", st_, shard=20000)
    rep.tlc_stats("VerbatimTrace[code spans]", st, len(sj))
    for job, (v, pos) in zip(sj, verdicts):
        if v != "ok":
            rep.violation(f"code_span:n={job[0]}:body={job[1]}",
                          {"engine": "trace", "module": "VerbatimTrace", "clause": v, "span": {"n": job[0], "body": job[1]}})
    rep.sample({"code_span": {"ticks": sj[100][0], "body_code_points": sj[100][1]}})
    rep.cov["evaluations"] = len(jobs) + len(sj)
    rep.cov["distinct_nontrivial"] = len({j for j, _ in keep}) + len(sj)
    rep.cov["rule"] = ("case = (configuration, document) or a generated code span; non-trivial = the parse has at least one "
                       "verbatim / markup-carrying block token (resp. every generated span)")


def replay(case, rep):
    if "span" in case:
        t = span_record((case["span"]["n"], case["span"]["body"]))
    else:
        i = case["input"]
        t, _ = record((gen.cfg_key(i["config"]), i["doc"]))
    v, _ = C.validate_traces("VerbatimTrace", [t])
    if v[0][0] != "ok":
        rep.violation(case.get("key", "replay"), case)


def selftest():
    t, _ = record((c03.configs()[0], "> ```js\n> x\n> ```\n\n---\n"))
    v, _ = C.validate_traces("VerbatimTrace", [t])
    assert v[0][0] == "ok", v
    for e in t["ev"]:
        if e["ty"] == "hr":
            e["mk"] = e["mk"] + [45]
    v, _ = C.validate_traces("VerbatimTrace", [t])
    assert v[0][0] == "hr_markup", v
    print("selftest C08 ok:", v[0])
    return 0
