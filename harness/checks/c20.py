"""C20 - work grows at most linearly on adversarial inputs (guards hold).

E1: Cost.tla - the skipToken / parseLinkLabel guard discipline as a cost function: linear for every
    bracket string of length <= N with the position cache and the cached nesting bail-out; without
    either, TLC finds the super-linear witness (kept as vacuity guards).
E3: for every family of CostFamilies.tla x preset, the real render is measured at sizes L, 2L, 4L
    (Python-level calls into markdown_it via sys.setprofile - deterministic; deepest nesting of
    tokenize frames) and CostTrace.tla requires the cost per character not to grow and the nesting
    to be cut at maxNesting.
"""
from __future__ import annotations

import json
import os
import sys

from .. import common as C
from .. import gen

PID = "C20"
PRESETS = {
    "commonmark": {"preset": "commonmark", "on": [], "off": [], "opts": []},
    "js-default+ext": {"preset": "js-default", "on": [], "off": [], "opts": [["typographer", "T"]]},
}
_F = []
_MD = {}


def families():
    if not _F:
        r = C.run_tlc("CostFamilies", "CostFamilies.cfg", workers=1, allow_violation=False, timeout=120)
        line = [l for l in r.out.splitlines() if l.startswith('"[{')][0]
        _F.extend(json.loads(json.loads(line)))
    return _F


def build(f, n):
    if f["kind"] == "rep":
        return f["pre"] + f["unit"] * n + f["mid"] + f["close"] * n + f["post"]
    if f["kind"] == "grow":
        return f["pre"] + f["mid"].join(f["unit"] * k for k in range(1, n + 1)) + f["post"]
    return "".join(" " * (2 * k) + f["unit"] for k in range(n))


def doc_of_chars(f, chars):
    """smallest n whose document has at least `chars` characters"""
    lo, hi = 1, 2
    while len(build(f, hi)) < chars:
        hi *= 2
    while lo < hi:
        mid = (lo + hi) // 2
        if len(build(f, mid)) < chars:
            lo = mid + 1
        else:
            hi = mid
    return build(f, lo)


def measure(job):
    fi, pname, chars = job
    f = families()[fi]
    if pname not in _MD:
        _MD[pname] = gen.make_md(PRESETS[pname])
    md = _MD[pname]
    doc = doc_of_chars(f, chars)
    lib = os.path.join(os.path.realpath(C.REPO), "markdown_it") + os.sep
    st = {"calls": 0, "depth": 0, "max": 0}

    def prof(frame, event, arg):
        if event == "call":
            co = frame.f_code
            if co.co_filename.startswith(lib):
                st["calls"] += 1
                if co.co_name == "tokenize":
                    st["depth"] += 1
                    if st["depth"] > st["max"]:
                        st["max"] = st["depth"]
        elif event == "return":
            co = frame.f_code
            if co.co_name == "tokenize" and co.co_filename.startswith(lib):
                st["depth"] -= 1
    raised = 0
    sys.setprofile(prof)
    try:
        md.render(doc)
    except BaseException:  # noqa  (e.g. RecursionError when nesting is not cut off)
        raised = 1
    finally:
        sys.setprofile(None)
    return [len(doc), min(st["calls"], 2 ** 31 - 1), st["max"], raised]


def run(tier, rep):
    q = tier == "quick"
    for cfg, expect in (("Cost.cfg", None), ("Cost_nocache.cfg", "WorkLinear"), ("Cost_nobail.cfg", "WorkLinear")):
        r = C.run_tlc("Cost", cfg)
        if expect is None and not r.ok:
            raise C.MachineryError("Cost.tla: the guarded algorithm is no longer linear in the model")
        if expect is not None and (r.ok or r.violated != expect):
            raise C.MachineryError(f"Cost.tla[{cfg}] no longer yields the super-linear witness (vacuity guard)")
        rep.tlc(f"Cost[{cfg}]", r)
    fams = families()
    L = 2500 if q else 12000
    sizes = [L, 2 * L, 4 * L]
    jobs = [(fi, p, s) for fi in range(len(fams)) for p in PRESETS for s in sizes]
    # the quadratic family is capped in the thorough tier (it is a recorded finding)
    cap = {"refdefs": 3000, "refdefs_distinct_lines": 3000}
    jobs = [(fi, p, min(s, cap.get(fams[fi]["name"], s) * (s // L))) if not q else (fi, p, s) for fi, p, s in jobs]
    res = C.pmap(measure, jobs, chunk=1)
    traces, keys = [], []
    for fi in range(len(fams)):
        for p in PRESETS:
            m = [res[k] for k, j in enumerate(jobs) if j[0] == fi and j[1] == p]
            maxn = 20 if p == "commonmark" else 100
            traces.append({"family": fams[fi]["name"], "maxn": maxn, "m": m})
            keys.append((fams[fi]["name"], p))
    verdicts, st = C.validate_traces("CostTrace", traces, shard=500, workers=4)
    rep.tlc_stats("CostTrace", st, len(traces))
    table = {}
    for (name, p), tr, (v, pos) in zip(keys, traces, verdicts):
        m = tr["m"]
        table[f"{name}/{p}"] = [round(x[1] / max(1, x[0]), 1) for x in m]
        if v != "ok":
            rep.violation(f"{v}:family={name}",
                          {"engine": "trace", "module": "CostTrace", "clause": v, "family": name, "preset": p,
                           "measurements_chars_calls_depth": m})
    rep.sample({"family": keys[0][0], "preset": keys[0][1], "chars_calls_depth": traces[0]["m"]})
    rep.sample({"family": "nested_links", "calls_per_char": table.get("nested_links/commonmark")})
    rep.cov["evaluations"] = len(jobs)
    rep.cov["distinct_nontrivial"] = len(traces)
    rep.cov["calls_per_char"] = table
    rep.cov["bounds"] = {"families": len(fams), "presets": list(PRESETS), "sizes_chars": sizes}
    rep.cov["rule"] = "case = (family, preset) measured at three sizes; all are distinct and non-trivial"
    rep.cov["exhaustive"] = True
    rep.assumptions += ["cost = number of Python-level calls into markdown_it (sys.setprofile), deterministic",
                        "growth is judged per 100 characters with a 15 % tolerance and a constant allowance; no absolute per-character budget"]


def replay(case, rep):
    fams = families()
    fi = [k for k, f in enumerate(fams) if f["name"] == case["family"]][0]
    L = case["measurements_chars_calls_depth"][0][0]
    m = [measure((fi, case["preset"], s)) for s in (L, 2 * L, 4 * L)]
    t = {"family": case["family"], "maxn": 20 if case["preset"] == "commonmark" else 100, "m": m}
    v, _ = C.validate_traces("CostTrace", [t])
    if v[0][0] != "ok":
        rep.violation(case.get("key", "replay"), case)


def selftest():
    t = {"family": "x", "maxn": 20, "m": [[600, 60000, 3, 0], [1200, 120000, 3, 0], [2400, 900000, 3, 0]]}
    v, _ = C.validate_traces("CostTrace", [t])
    assert v[0][0] == "superlinear", v
    t["m"][2][1] = 245000
    v, _ = C.validate_traces("CostTrace", [t])
    assert v[0][0] == "ok", v
    print("selftest C20 ok")
    return 0
