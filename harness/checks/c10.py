"""C10 - rule and option switches have exactly their documented effect.

E1/E2: ConfigGen.tla enumerates configurations (each preset, enable/disable of optional rules, option
values); DocGen.tla the documents.  E3: SwitchesTrace.tla validates (1) that every token type in a
parse is produced by an enabled rule (relation Produces, incl. the html and inline_definitions
conditions), (2) that table / strikethrough are conservative extensions on documents without their
trigger, (3) that inline_definitions / store_labels are add-only.  (4) The three option routes are one
action in Facade.tla: constructor options_update, item assignment and attribute assignment are
replayed on three instances and validated by FacadeTrace.tla (same projection, same results).
"""
from __future__ import annotations

import json
import random

from .. import common as C
from .. import gen
from .. import algebra as A
from .. import facade
from . import c12

PID = "C10"


def types_of(tokens, acc):
    for t in tokens:
        acc.add(t.type)
        if t.children:
            types_of(t.children, acc)
    return acc


WARM = ("# h\n\n> q\n\n- a\n1. b\n\n    code\n\n```\nf\n```\n\n***\n\na|b\n-|-\n1|2\n\ns\n===\n\n"
        "*e* **s** ~~d~~ `c` [l](/u) ![i](/s) <http://a.b> &amp; \\* x  \ny [r]\n\n[r]: /u\n")
_RMD = {}


def routed(cfgkey, route):
    """The same configuration reached by another public route of switching rules:
    1 = an instance that has already parsed (all rules on) is re-configured with configure(preset) + enable/disable;
    2 = the configuration is left and re-entered through a reset_rules() block in which every rule was switched on
        and a document parsed (the block must restore the rules in force on entry)."""
    key = (cfgkey, route)
    if key in _RMD:
        return _RMD[key]
    from markdown_it import MarkdownIt

    cfg = json.loads(cfgkey)
    upd = {k: gen.opt_value(k, v) for k, v in cfg.get("opts", [])}
    if route == 1:
        md = MarkdownIt("js-default")
        md.parse(WARM)
        md.configure(cfg["preset"], options_update=upd or None)
        if cfg.get("on"):
            md.enable(cfg["on"])
        if cfg.get("off"):
            md.disable(cfg["off"])
    else:
        md = gen.make_md(cfg)
        md.parse(WARM)
        with md.reset_rules():
            allr, act = md.get_all_rules(), md.get_active_rules()
            md.enable([n for c in allr for n in allr[c] if n != "linkify"])
            # ... and some of the rules that were in force on entry off, in every chain (never the fallbacks / core)
            keep = {"paragraph", "text", "normalize", "block", "inline", "text_join"}
            md.disable([n for c in act for n in act[c][:3] if n not in keep], True)
            md.parse(WARM)
    _RMD[key] = md
    return md


def rec_types(job):
    cfgkey, doc = job[:2]
    md = A.md_for(cfgkey) if len(job) < 3 or not job[2] else routed(cfgkey, job[2])
    act = md.get_active_rules()
    want = []
    if len(job) > 2 and job[2]:
        wa = A.md_for(cfgkey).get_active_rules()
        want = [f"{c}/{n}" for c in wa for n in wa[c]]
    toks = md.parse(doc)
    return {"kind": "types", "want": want, "active": [f"{c}/{n}" for c in act for n in act[c]],
            "html": 1 if md.options.get("html") else 0, "idef": 1 if md.options.get("inline_definitions") else 0,
            "types": sorted(C.ascii_safe(x) for x in types_of(toks, set()))}


def _strip_label(d):
    # label metadata is what store_labels adds to the tokens of reference links and images; on any other token a
    # "label" entry is a change to that token
    if isinstance(d, dict):
        m = d.get("meta")
        if isinstance(m, dict) and "label" in m and d.get("type") in ("link_open", "image"):
            d = dict(d, meta={k: v for k, v in m.items() if k != "label"})
        if d.get("children"):
            d = dict(d, children=[_strip_label(c) for c in d["children"]])
    return d


def side(md, doc):
    env = {}
    toks = md.parse(doc, env)
    refs, dups = A.refs_of(env)
    out = []
    for t in toks:
        r = A.tok(t)
        meta0 = {k: v for k, v in t.meta.items() if not (k == "label" and t.type in ("link_open", "image"))}
        r["me0"] = A.jstr(meta0)
        r["kids0"] = A.jstr([_strip_label(c.as_dict()) for c in t.children]) if t.children is not None else "null"
        out.append(r)
    return {"toks": out, "refs": refs, "dups": dups, "html": C.cps(md.renderer.render(toks, md.options, env))}


def rec_pair(job):
    rel, cfg, doc = job
    base = json.loads(cfg)
    on, off = dict(base), dict(base)
    if rel in ("table", "strikethrough"):
        on = dict(base, on=sorted(set(base["on"]) | {rel}), off=[x for x in base["off"] if x != rel])
        off = dict(base, off=sorted(set(base["off"]) | {rel}), on=[x for x in base["on"] if x != rel])
    else:
        opts = [o for o in base["opts"] if o[0] != rel]
        on = dict(base, opts=sorted(opts + [[rel, "T"]]))
        off = dict(base, opts=sorted(opts))
    return {"kind": "pair", "rel": rel, "doc": C.cps(doc), "on": side(A.md_for(gen.cfg_key(on)), doc),
            "off": side(A.md_for(gen.cfg_key(off)), doc)}


def route_histories():
    hs = []
    choices = [("html", "F"), ("html", "T"), ("breaks", "T"), ("xhtmlOut", "T"), ("xhtmlOut", "F"), ("typographer", "T"),
               ("langPrefix", "x-"), ("maxNesting", "2"), ("store_labels", "T"), ("inline_definitions", "T"), ("linkify", "F")]
    for p in ("commonmark", "js-default", "zero"):
        for k, v in choices:
            h = [{"op": "construct", "i": 1, "preset": p, "upd": [[k, v]]},
                 {"op": "construct", "i": 2, "preset": p, "upd": []},
                 {"op": "setopt", "i": 2, "route": "item", "k": k, "v": v},
                 {"op": "construct", "i": 3, "preset": p, "upd": []},
                 {"op": "setopt", "i": 3, "route": "attr", "k": k, "v": v}]
            for d in ("D1", "D2", "D3"):
                for i in (1, 2, 3):
                    h.append({"op": "parse", "i": i, "api": "render", "doc": d, "env": "omitted"})
            hs.append(h)
    return hs


def run(tier, rep):
    q = tier == "quick"
    cfgs = gen.configs(tier, rep)
    l1 = gen.docs("L1", tier, rep, cfg="DocGen_L1_small.cfg" if q else None)
    l2 = gen.docs("L2", tier, rep)
    docs = gen.sample(l1, 9000 if q else 120000, C.SEED, keep_short=500) + \
        [d + "\n\n[r]: /u 't'\n\n[R]: /dup\n" for d in gen.sample(l2, 9000 if q else 120000, C.SEED + 1)] + \
        gen.twins(gen.sample(l1, 2000 if q else 30000, C.SEED + 6), C.SEED, per_doc=1)
    dense = ["# h\n\n> q\n\n- a\n1. b\n\n    code\n\n```\nf\n```\n\n***\n\n<div>\nx\n</div>\n\na|b\n-|-\n1|2\n\ns\n===\n\n"
             "*e* **s** ~~d~~ `c` [l](/u) ![i](/s) <http://a.b> <b>r</b> &amp; \\* x  \ny\nz\\\nw [r]\n\n[r]: /u\n"]
    ckeys = [gen.cfg_key(c) for c in cfgs]
    rnd = random.Random(C.SEED)
    j1 = [(ckeys[(k * 13) % len(ckeys)], d) for k, d in enumerate(docs)]
    j1 += [(ck, dense[0]) for ck in ckeys]
    # the same configurations reached through configure() on a used instance and through a reset_rules() block
    j1 += [(ckeys[(k * 7) % len(ckeys)], d, 1 + k % 2) for k, d in enumerate(gen.sample(docs, 4000 if q else 60000, C.SEED + 5))]
    j1 += [(ck, dense[0], r) for ck in ckeys for r in (1, 2)]
    # pairs
    bases = [gen.cfg_key(c) for c in gen.BASE_CONFIGS] + gen.sample(ckeys, 40 if q else 400, C.SEED + 2)
    j2 = []
    for k, d in enumerate(gen.sample(docs, 6000 if q else 80000, C.SEED + 3) + dense):
        for n, rel in enumerate(("table", "strikethrough", "inline_definitions", "store_labels")):
            j2.append((rel, bases[(k + n) % len(bases)], d))
    # the two add-only options on every document that holds a definition (in any container, before / after blanks)
    import re
    full = gen.docs("L1", tier, rep)
    withdef = [d for d in full if re.search(r"\[[aA]\]: ", d)]
    incont = [d for d in withdef if re.search(r"(^|\n)\s*([-*+>]|\d+[.)])\s*\[[aA]\]: ", d)]
    for k, d in enumerate(gen.sample(withdef, 4000 if q else 80000, C.SEED + 8, keep_short=1500)):
        j2.append((("inline_definitions", "store_labels")[k % 2], bases[k % 2], d))
    for k, d in enumerate(gen.sample(incont, 8000 if q else 300000, C.SEED + 9, keep_short=3000)):
        j2.append(("inline_definitions", bases[k % 2], d))

    # the two extensions against the barest base (zero preset: nothing else is enabled that could mask a difference)
    zero = gen.cfg_key(gen.BASE_CONFIGS[2])
    for k, d in enumerate(gen.sample(docs, 5000 if q else 60000, C.SEED + 4, keep_short=1500)):
        j2.append((("table", "strikethrough")[k % 2], zero, d))
    # executed and validated in slices (bounded memory in the thorough tier)
    v1, st1, _k, first1 = C.run_sliced(rec_types, j1, "SwitchesTrace", slice_size=100000, chunk=400, shard=4000, heap="8g")
    v2, st2, _k, _f = C.run_sliced(rec_pair, j2, "SwitchesTrace", slice_size=40000, chunk=200, shard=4000, heap="8g")
    verdicts = v1 + v2
    st = {k: st1[k] + st2[k] for k in st1}
    n1, n2 = len(j1), len(j2)
    rep.tlc_stats("SwitchesTrace", st, n1 + n2)
    held, skips = 0, {}
    for job, (v, pos) in zip(j1 + j2, verdicts):
        if v == "ok":
            held += 1
        elif v.startswith("skip:"):
            skips[v] = skips.get(v, 0) + 1
        else:
            rep.violation(f"{v}:{json.dumps(job)}"[:700], {"engine": "trace", "module": "SwitchesTrace", "clause": v, "job": list(job)})
    # option routes through the facade model
    rh = route_histories()
    c12.validate(rep, "option-routes", rh, PID, shard=2000)
    rep.sample({"types": {"config": json.loads(j1[3][0]), "doc": j1[3][1], "types": first1[3]["types"]}})
    rep.sample({"pair": {"switch": j2[5][0], "base": json.loads(j2[5][1]), "doc": j2[5][2]}})
    rep.cov["evaluations"] = n1 + n2 + len(rh)
    rep.cov["distinct_nontrivial"] = held + len(rh)
    rep.cov["guard_skips"] = skips
    rep.cov["bounds"] = {"configs_enumerated": len(cfgs), "type_checks": n1, "pairs": n2, "route_histories": len(rh)}
    rep.cov["rule"] = ("case = (configuration, document) for the producer relation, (switch, base configuration, document) for "
                       "the pair laws, or an option written by the three routes; non-trivial = guards hold and the comparison was made")
    rep.cov["exhaustive"] = False
    rep.assumptions += ["the attribute route exists for the options OptionsDict documents as attributes (AttrKeys of Facade.tla); "
                        "store_labels / inline_definitions are written through the item route there"]


def replay(case, rep):
    if case.get("module") == "FacadeTrace":
        return c12.replay(case, rep)
    job = case["job"]
    t = rec_pair(tuple(job)) if isinstance(job[0], str) and job[0] in ("table", "strikethrough", "inline_definitions", "store_labels") else rec_types(tuple(job))
    v, _ = C.validate_traces("SwitchesTrace", [t])
    if not (v[0][0] == "ok" or v[0][0].startswith("skip:")):
        rep.violation(case.get("key", "replay"), case)


def selftest():
    ck = gen.cfg_key({"preset": "commonmark", "on": [], "off": [], "opts": []})
    t = rec_types((ck, "a|b\n-|-\n\n*x*\n"))
    v, _ = C.validate_traces("SwitchesTrace", [t])
    assert v[0][0] == "ok", v
    t["types"].append("table_open")
    v, _ = C.validate_traces("SwitchesTrace", [t])
    assert v[0][0] == "not_produced_by_enabled_rule", v
    print("selftest C10 ok:", v[0])
    return 0
