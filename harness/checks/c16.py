"""C16 - reference definitions act through env: seeding env equals prepending them.

E1: Env.tla (first-wins store: RecordedOnce, FirstWins, SecondSeedingOnlyDuplicates) model-checked;
    its behaviours are definition scripts (R, D, env history) over label classes written in several
    spellings (case variants, white-space runs, pairs that case-fold together, pairs that must not).
E2: each script is executed on the real parser in its history (fresh / seeded / seeded twice) and
    in one go.
E3: TLC validates EnvTrace.tla (store contents with the map of each definition's own lines, every
    use resolved to the first definition of its class or not at all, output / tokens / env equal to
    the one-go parse) and RefFormLaw of DocAlgebraTrace.tla (reference form = inline form).
"""
from __future__ import annotations

import itertools
import json
import re

from .. import common as C
from .. import gen
from .. import algebra as A

PID = "C16"
CFGS = [gen.cfg_key(c) for c in (
    {"preset": "commonmark", "on": [], "off": [], "opts": []},
    {"preset": "js-default", "on": [], "off": [], "opts": []},
)]
_CLS = {}


def classes(name):
    if name not in _CLS:
        r = C.run_tlc("EnvConst", "EnvConst.cfg", workers=1, allow_violation=False, timeout=120)
        line = [l for l in r.out.splitlines() if l.startswith('"{')][0]
        d = json.loads(json.loads(line))
        for k, v in d.items():
            _CLS[k] = [[gen.expand(s) for s in cl] for cl in v]
    return _CLS[name]


def item_text(it, n, cls):
    label = cls[it["c"] - 1][it["s"] - 1]
    if it["k"] == "use":
        if it["kind"] == "listlink":
            return "- use [x][%s] end\n-\n" % label
        return ("use [x][%s] end\n" if it["kind"] == "link" else "use ![x][%s] end\n") % label
    if it["kind"] == "one":
        return "[%s]: /d%d\n" % (label, n)
    if it["kind"] == "title":
        return "[%s]: /d%d \"T%d\"\n" % (label, n, n)
    if it["kind"] == "nextline":
        return "[%s]:\n/d%d\n'T%d'\n" % (label, n, n)
    if it["kind"] == "multiline":
        return "[%s]: /d%d \"T%d\nU\"\n" % (label, n, n)
    if it["kind"] == "bsline":
        return "[%s]: /d%d \"T%d\\\nU\"\n" % (label, n, n)
    if it["kind"] == "lfref":
        return "[%s]: /d%d \"T%d&#10;U\"\n" % (label, n, n)
    if it["kind"] == "quoted":
        return "> [%s]: /d%d \"T%d\"\n" % (label.replace("\n", "\n> "), n, n)
    if it["kind"] == "quotedtitle":
        return "> [%s]: /d%d\n> \"T%d\"\n" % (label.replace("\n", "\n> "), n, n)
    if it["kind"] == "lazytitle":
        return "> [%s]: /d%d\n\"T%d\"\n" % (label.replace("\n", "\n> "), n, n)
    if it["kind"] == "lazydest":
        return "> [%s]:\n/d%d\n" % (label.replace("\n", "\n> "), n)
    if it["kind"] == "listed":
        return "- [%s]: /d%d\n  \"T%d\"\n" % (label.replace("\n", "\n  "), n, n)
    if it["kind"] == "listlazy":
        return "- [%s]: /d%d\n\"T%d\"\n" % (label.replace("\n", "\n  "), n, n)
    raise C.MachineryError("unknown definition layout " + it["kind"])


def build(script, cls):
    """-> (R text, D text, defs of R [(c,id,b,e)], defs of D, uses)"""
    n = 0
    out = []
    for part in ("R", "D"):
        text, line, defs, uses = "", 0, [], []
        for k, it in enumerate(script[part]):
            if k:
                text += "\n"
                line += 1
            n += 1
            t = item_text(it, n, cls)
            nl = t.count("\n")
            if it["k"] == "def":
                defs.append([it["c"], n, line, line + nl])
            else:
                uses.append(it["c"])
            text += t
            line += nl
        out.append((text, defs, uses, line))
    return out


_ID = re.compile(r"^/d(\d+)$")


def observe(md, doc, env, nuses):
    toks = md.parse(doc, env)
    html = md.renderer.render(toks, md.options, env)

    def ident(ref):
        m = _ID.match(ref.get("href", ""))
        return int(m.group(1)) if m else -1
    refs = sorted([ident(r), r["map"][0], r["map"][1]] for r in env.get("references", {}).values())
    dups = [[ident(r), r["map"][0], r["map"][1]] for r in env.get("duplicate_refs", [])]
    hrefs = []
    for t in toks:
        if t.type == "inline" and t.content.startswith("use "):
            h = 0
            for c in t.children or []:
                if c.type in ("link_open", "image"):
                    m = _ID.match(str(c.attrs.get("href", c.attrs.get("src", ""))))
                    h = int(m.group(1)) if m else -1
            hrefs.append(h)
    return {"refs": refs, "dups": dups, "hrefs": hrefs, "html": C.ascii_safe(html),
            "toks": [A.tok(t) for t in toks]}


def run_script(job):
    script, cfgkey, clsname = job
    md = A.md_for(cfgkey)
    cls = classes(clsname)
    (rt, rdefs, _, rl), (dt, ddefs, uses, dl) = build(script, cls)
    k = rl + 1
    hist = script["hist"]
    shifted = [[c, i, b + k, e + k] for c, i, b, e in ddefs]
    onego = observe(md, rt + "\n" + dt, {}, len(uses))
    if hist == "fresh":
        obs = onego
        defs = rdefs + shifted
        # `toks` are only compared between histories
        return {"hist": hist, "k": k, "defs": defs, "defs1": defs, "uses": uses, "obs": dict(obs, toks=[]), "one": {}}
    env = {}
    md.parse(rt, env)
    if hist == "twice":
        md.parse(rt, env)
    obs = observe(md, dt, env, len(uses))
    # the one-go stream also contains nothing for R (definitions emit no tokens), so it is D's stream shifted
    defs = rdefs + (rdefs if hist == "twice" else []) + ddefs
    return {"hist": hist, "k": k, "defs": defs, "defs1": rdefs + shifted, "uses": uses, "obs": obs, "one": onego}


TAILS = ["", "(see 'T2' there)", "(/v \"T3\" x", " [r] (y)", "[]x"]


def law_refform(job):
    text, dest, title, image, cfgkey = job[:5]
    form, tail = (job[5], TAILS[job[6]]) if len(job) > 5 else (0, "")
    md = A.md_for(cfgkey)
    bang = "!" if image else ""
    tt = (" " + title) if title else ""
    # the same text follows the link in both spellings (a parenthesised group after a shortcut reference makes the
    # parser try - and abandon - the inline form first)
    inline = "%s[%s](%s%s)%s\n\n[r]: /other\n" % (bang, text, dest, tt, tail)
    if form == 0:        # full reference
        ref = "%s[%s][r2]%s\n\n[r2]: %s%s\n\n[r]: /other\n" % (bang, text, tail, dest, tt)
    elif form == 1:      # collapsed reference: the text is the label
        ref = "%s[%s][]%s\n\n[%s]: %s%s\n\n[r]: /other\n" % (bang, text, tail, text, dest, tt)
    else:                # shortcut reference
        ref = "%s[%s]%s\n\n[%s]: %s%s\n\n[r]: /other\n" % (bang, text, tail, text, dest, tt)
    bt, dt = md.parse(inline), md.parse(ref)

    def nlinks(ts):
        n = 0
        for t in ts:
            for c in t.children or []:
                n += c.type in ("link_open", "image")
        return n
    return {"op": "refform", "maxn": 20, "a": {"blinks": nlinks(bt[:3]), "dlinks": nlinks(dt[:3])},
            "base": {"lines": [], "toks": [A.tok(t) for t in bt], "refs": [], "dups": []},
            "der": {"lines": [], "toks": [A.tok(t) for t in dt], "refs": [], "dups": []}}


def scripts_from(r, n=None, seed=0):
    """The scripts TLC printed; with n: a seeded sample of n of them (decoded only after sampling - the thorough
    enumeration has millions of lines). Returns (scripts, number enumerated)."""
    lines = [line for line in r.out.splitlines() if line.startswith('"{')]
    total = len(lines)
    if n is not None and total > n:
        lines = gen.sample(lines, n, seed)
    return [json.loads(json.loads(line)) for line in lines], total


def run(tier, rep):
    q = tier == "quick"
    r = C.run_tlc("MCEnv", f"Env_{tier}.cfg", allow_violation=False, timeout=1800, heap="12g")
    rep.tlc(f"Env[{tier}]", r)
    # a seeded sample of the enumeration is executed (quick: 30 000; thorough: 400 000 - the full enumeration of the
    # thorough bound does not fit into the memory of this machine next to TLC)
    sc, enumerated = scripts_from(r, 30000 if q else 400000, C.SEED)
    r.out = ""
    rs = C.run_tlc("MCEnv", "Env_sim.cfg", simulate=f"num={400 if q else 6000}", depth=8, seed=C.SEED + 5, workers=1,
                   allow_violation=False, timeout=2400)
    rep.tlc("Env[simulate, all classes]", rs)
    sim, _n = scripts_from(rs)
    if len(sc) < 1000 or len(sim) < 200:
        raise C.MachineryError(f"too few scripts: {len(sc)} exhaustive, {len(sim)} simulated")
    jobs = [(s, CFGS[k % 2], "MCClassesQ") for k, s in enumerate(sc)] + [(s, CFGS[k % 2], "MCClasses") for k, s in enumerate(sim)]
    # executed and validated in slices (the thorough tier has millions of scripts: bounded memory)
    verdicts, ntr, acc = [], 0, {"generated": 0, "distinct": 0, "shards": 0, "tlc_wall": 0.0}
    for lo in range(0, len(jobs), 50000):
        part = C.pmap(run_script, jobs[lo: lo + 50000], chunk=200)
        vs, st = C.validate_traces("EnvTrace", part, shard=4000, heap="8g")
        verdicts += vs
        ntr += len(part)
        for kk in acc:
            acc[kk] += st[kk]
        del part
    rep.tlc_stats("EnvTrace", acc, ntr)
    traces = range(ntr)
    for job, (v, pos) in zip(jobs, verdicts):
        if v != "ok":
            s = job[0]
            cls = classes(job[2])
            # Key the violation by WHICH label classes the implementation conflates (classes that the
            # specification keeps apart but the library's own normalisation maps to one key), so that a
            # recorded finding about one pair of characters never hides another pair.
            from markdown_it.common.utils import normalizeReference
            groups = {}
            for i in s["R"] + s["D"]:
                groups.setdefault(normalizeReference(cls[i["c"] - 1][i["s"] - 1]), set()).add(i["c"])
            merged = sorted("~".join(cls[c - 1][0] for c in sorted(g)) for g in groups.values() if len(g) > 1)
            if merged:
                key = "env:conflated_label_classes:" + json.dumps(merged, ensure_ascii=True)
            else:
                labels = sorted({cls[i["c"] - 1][i["s"] - 1] for i in s["R"] + s["D"]})
                key = f"env:{v}:labels={json.dumps(labels, ensure_ascii=True)}"
            rep.violation(key, {"engine": "trace", "module": "EnvTrace", "clause": v, "script": s, "classes": job[2],
                                "config": json.loads(job[1])})
    rep.sample({"script": jobs[10][0]})
    # reference form = inline form
    texts, dests, titles = gen.alphabet("RText"), gen.alphabet("RDest"), gen.alphabet("RTitle")
    trip = list(itertools.product(texts, dests, titles, (0, 1)))
    j2 = [(t, d, ti, im, CFGS[k % 2]) for k, (t, d, ti, im) in enumerate(trip)]
    # collapsed / shortcut forms (the text is the label: texts without brackets) and texts that follow the link
    k = 0
    for (t, d, ti, im) in trip:
        for form in (0, 1, 2):
            if form and ("[" in t or "]" in t or not t.strip()):
                continue          # a label needs a non-blank character and no unescaped brackets
            for tl in range(len(TAILS)):
                if form == 0 and tl == 0:
                    continue
                if form in (1, 2) and TAILS[tl].startswith("[]"):
                    continue          # "[]" after a shortcut reference makes it a collapsed one
                if (k % (3 if q else 1)) == 0:
                    j2.append((t, d, ti, im, CFGS[k % 2], form, tl))
                k += 1
    t2 = C.pmap(law_refform, j2, chunk=200)
    verdicts, st = C.validate_traces("DocAlgebraTrace", t2, shard=3000)
    rep.tlc_stats("DocAlgebraTrace[refform]", st, len(t2))
    held = 0
    skips = {}
    for job, (v, pos) in zip(j2, verdicts):
        if v == "ok":
            held += 1
        elif v.startswith("skip:"):
            skips[v] = skips.get(v, 0) + 1
        else:
            rep.violation(f"refform:{v}:{json.dumps(job[:4] + job[5:])}",
                          {"engine": "trace", "module": "DocAlgebraTrace", "clause": v, "triple": list(job[:4]) + list(job[5:]), "config": json.loads(job[4])})
    rep.sample({"refform": list(j2[37][:4])})
    rep.cov["evaluations"] = len(traces) + len(t2)
    rep.cov["distinct_nontrivial"] = len(traces) + held
    rep.cov["guard_skips"] = skips
    rep.cov["bounds"] = {"scripts_enumerated": enumerated, "scripts_exhaustive": len(sc), "scripts_simulated": len(sim), "triples": len(t2), "triples_compared": held}
    rep.cov["rule"] = ("case = one definition script in one env history (each with >= 1 definition and >= 1 item in D), or one "
                       "(text, destination, title, link|image) triple; all distinct; triples are non-trivial when at least one form yields a link")
    rep.cov["exhaustive"] = False
    rep.assumptions += ["label classes are constants of the specification (built from Unicode case folding and white-space collapsing)",
                        "definitions are identified through unique destinations /dN"]


def replay(case, rep):
    if "script" in case:
        t = run_script((case["script"], gen.cfg_key(case["config"]), case["classes"]))
        v, _ = C.validate_traces("EnvTrace", [t])
    else:
        tr = tuple(case["triple"])
        t = law_refform(tr[:4] + (gen.cfg_key(case["config"]),) + tr[4:])
        v, _ = C.validate_traces("DocAlgebraTrace", [t])
    if not (v[0][0] == "ok" or v[0][0].startswith("skip:")):
        rep.violation(case.get("key", "replay"), case)


def selftest():
    s = {"R": [{"k": "def", "c": 1, "s": 1, "kind": "one"}], "D": [{"k": "def", "c": 1, "s": 2, "kind": "one"},
         {"k": "use", "c": 1, "s": 2, "kind": "link"}], "hist": "seeded"}
    t = run_script((s, CFGS[0], "MCClassesQ"))
    v, _ = C.validate_traces("EnvTrace", [t])
    assert v[0][0] == "ok", v
    t["obs"]["hrefs"] = [2]
    v, _ = C.validate_traces("EnvTrace", [t])
    assert v[0][0] == "resolution", v
    print("selftest C16 ok:", v[0])
    return 0
