"""C05 - emitted link and image URLs are normalised and never carry a dangerous scheme.

Inputs: UrlGen.tla (lead x scheme-segment spellings x payload) placed by every producer template
(inline link, <...> destination, titled link, image, reference definition on the same / next line,
collapsed reference, image reference, autolink, two-in-one), html on and off.  Observed: href/src of
link_open/image tokens and href/src attributes of the rendered HTML; validated by TLC against
UrlSafeTrace.tla (URL-safe alphabet, browser reading of the scheme, rejected constructs literal).
The linkifier producers need linkify-it-py, which is not installed (stated in the evidence).
"""
from __future__ import annotations

import html as htmlmod
import json
import re

from .. import common as C
from .. import gen

PID = "C05"
_MD = {}
ATTR = re.compile(r'\s(?:href|src)="([^"]*)"')
CFGS = [
    {"preset": "commonmark", "on": [], "off": [], "opts": []},
    {"preset": "js-default", "on": [], "off": [], "opts": []},
    {"preset": "commonmark", "on": [], "off": ["entity"], "opts": [["html", "F"]]},
    {"preset": "js-default", "on": [], "off": ["escape"], "opts": [["html", "T"], ["typographer", "T"]]},
]
OFF = ["link", "image", "autolink", "reference"]


def mds(k):
    if k not in _MD:
        cfg = CFGS[k]
        lit = dict(cfg, off=sorted(set(cfg["off"]) | set(OFF)))
        _MD[k] = (gen.make_md(cfg), gen.make_md(lit))
    return _MD[k]


def record(job):
    k, doc = job
    md, lit = mds(k)
    toks = md.parse(doc)
    urls = []

    def walk(ts):
        n = 0
        for t in ts:
            if t.type in ("link_open", "image"):
                n += 1
                for a in ("href", "src"):
                    if a in t.attrs:
                        urls.append(str(t.attrs[a]))
            if t.children:
                n += walk(t.children)
        return n
    ntok = walk(toks)
    out = md.render(doc)
    for m in ATTR.finditer(out):
        urls.append(htmlmod.unescape(m.group(1)))
    return {"urls": [C.cps(u) for u in urls], "ntok": ntok, "html": C.cps(out) if not urls and ntok == 0 else [],
            "lit": C.cps(lit.render(doc)) if not urls and ntok == 0 else []}


def build_jobs(tier, rep):
    r = C.run_tlc("MCUrlGen", f"UrlGen_{tier}.cfg", allow_violation=False, timeout=900)
    rep.tlc(f"UrlGen[{tier}]", r)
    dests = []
    for line in r.out.splitlines():
        if line.startswith('"{'):
            d = json.loads(json.loads(line))
            dests.append(gen.expand("".join(d["parts"])))
    dests = sorted(set(dests))
    prods = gen.alphabet("WrapU")
    q = tier == "quick"
    jobs = []
    for k, d in enumerate(dests):
        ps = [prods[(k + j) % len(prods)] for j in range(6)] if q else prods
        for j, p in enumerate(ps):
            jobs.append(((k + j) % len(CFGS), d.join(p) + "\n"))
    # plus: the metacharacter placements of C04 that put fragments in destination position
    rep.cov["bounds"] = {"destinations": len(dests), "producers": len(prods), "configs": len(CFGS), "executed": len(jobs)}
    rep.cov["exhaustive"] = not q
    return jobs


def run(tier, rep):
    jobs = build_jobs(tier, rep)
    traces = C.pmap(record, jobs, chunk=500)
    verdicts, st = C.validate_traces("UrlSafeTrace", traces, shard=20000)
    rep.tlc_stats("UrlSafeTrace", st, len(traces))
    emitted = rejected = 0
    for job, t, (v, pos) in zip(jobs, traces, verdicts):
        if t["urls"]:
            emitted += 1
        else:
            rejected += 1
        if v != "ok":
            rep.violation(f"{v}:{json.dumps(CFGS[job[0]], sort_keys=True)}:{json.dumps(job[1])}",
                          {"engine": "trace", "module": "UrlSafeTrace", "clause": v,
                           "input": {"config_index": job[0], "config": CFGS[job[0]], "doc": job[1]},
                           "urls": ["".join(map(chr, u)) for u in t["urls"]]})
    if emitted < 100 or rejected < 100:
        raise C.MachineryError(f"generator is one-sided: {emitted} emitting / {rejected} rejected constructs")
    rep.sample({"doc": jobs[17][1], "urls": ["".join(map(chr, u)) for u in traces[17]["urls"]]})
    rep.sample({"doc": jobs[-5][1], "urls": ["".join(map(chr, u)) for u in traces[-5]["urls"]]})
    rep.cov["evaluations"] = len(jobs)
    rep.cov["distinct_nontrivial"] = len(set(jobs))
    rep.cov["emitting"] = emitted
    rep.cov["rejected_left_literal"] = rejected
    rep.cov["rule"] = ("case = (configuration, producer template, destination spelling); all generated cases are distinct and "
                       "non-trivial (each carries a scheme-like destination)")
    rep.assumptions += ["linkify-it-py is not installed: the linkifier producers are not exercised",
                        "'left as literal text' is judged against the rendering with link/image/autolink/reference rules off"]


def replay(case, rep):
    i = case["input"]
    t = record((i["config_index"], i["doc"]))
    v, _ = C.validate_traces("UrlSafeTrace", [t])
    if v[0][0] != "ok":
        rep.violation(case.get("key", "replay"), case)


def selftest():
    t = record((0, "[t](http://x.y/a b)\n\n[u](<http://x.y/a b>)\n"))
    v, _ = C.validate_traces("UrlSafeTrace", [t])
    assert v[0][0] == "ok", v
    t["urls"].append(C.cps("JaVaScRiPt:alert(1)"))
    v, _ = C.validate_traces("UrlSafeTrace", [t])
    assert v[0][0] == "dangerous_scheme", v
    print("selftest C05 ok:", v[0])
    return 0
