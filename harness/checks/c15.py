"""C15 - tokens survive serialisation and tree conversion; rendering is repeatable.

E1: RoundTrip.tla (operation sequences over a stream value: RoundTrip(fmt, children), Tree, Render;
    ValuePreserved, RenderRepeatable).  E2: every operation sequence (<= 4 operations) is replayed on
    real token streams of DocGen documents under ConfigGen configurations.  E3: RoundTripTrace.tla
    validates each step: round trips are equal tokens with the same value and HTML, the tree
    flattens to the identical sequence, walk follows stream order, parent/child/sibling links are
    mutually consistent, render is repeatable and does not change the value.
"""
from __future__ import annotations

import copy
import json
import random

from .. import common as C
from .. import gen
from .. import algebra as A

PID = "C15"


def val0(tokens):
    """The stream value: as_dict of every token, minus the alt attribute render sets on images."""
    def strip(d):
        if d.get("type") == "image" and d.get("attrs"):
            a = d["attrs"]
            d["attrs"] = [x for x in a if x[0] != "alt"] if isinstance(a, list) else {k: v for k, v in a.items() if k != "alt"}
            if not d["attrs"]:
                d["attrs"] = None
        if d.get("children"):
            d["children"] = [strip(c) for c in d["children"]]
        return d
    return A.jstr([strip(t.as_dict()) for t in tokens])


def tree_event(tokens):
    from markdown_it.tree import SyntaxTreeNode

    try:
        root = SyntaxTreeNode(tokens)
    except Exception:
        return {"op": "tree", "ok": 0, "ids": [], "walk": [], "total": 0, "nodes": []}
    pos = {id(t): k + 1 for k, t in enumerate(tokens)}
    flat = root.to_tokens()
    ids = [pos.get(id(t), 0) for t in flat]
    # pre-order numbering of all tokens, children included
    order = {}

    def number(ts):
        for t in ts:
            order[id(t)] = len(order) + 1
            if t.children:
                number(t.children)
    number(tokens)
    nonclosing = sum(1 for _ in _all(tokens) if _.nesting != -1)
    walk = []
    nid = {}
    nodes = list(root.walk())
    for n in nodes:
        nid[id(n)] = len(nid) + 1
    for n in nodes:
        if n.is_root:
            continue
        first = n.token if n.token is not None else n.nester_tokens.opening
        walk.append(order.get(id(first), 0))
    recs = []
    for n in nodes:
        par = nid.get(id(n.parent), 0) if n.parent is not None else 0
        if n.is_root:
            prev = nxt = 0
        else:
            p, x = n.previous_sibling, n.next_sibling
            prev = nid.get(id(p), -1) if p is not None else 0
            nxt = nid.get(id(x), -1) if x is not None else 0
        recs.append([nid[id(n)], par, prev, nxt, [nid[id(c)] for c in n.children]])
    return {"op": "tree", "ok": 1, "ids": ids, "walk": walk, "total": nonclosing, "nodes": recs}


def _all(ts):
    for t in ts:
        yield t
        if t.children:
            yield from _all(t.children)


def execute(job):
    """Never lets an exception raised by a public Token / renderer operation on parser output escape as a harness
    failure: a stream that cannot even be copied, serialised or rendered is reported as a failed round trip."""
    try:
        return _execute(job)
    except C.MachineryError:
        raise
    except Exception as ex:  # noqa
        return {"val0": "", "html": "", "n": 0,
                "ev": [{"op": "rt", "raised": 1, "eq": 0, "val0": "", "html": "", "exc": type(ex).__name__}]}, 3


def _execute(job):
    cfgkey, doc, ops = job[:3]
    deco = job[3] if len(job) > 3 else 0
    from markdown_it.token import Token

    md = A.md_for(cfgkey)
    env = {}
    toks = md.parse(doc, env)
    if deco:
        # a stream as a plugin leaves it: attributes, meta and info set through the public Token API on every
        # token that renders a tag (the statement speaks of every stream the parser produces, plugins included)
        for t in _all(toks):
            if t.nesting >= 0 and (t.tag or t.type in ("fence", "code_block", "code_inline")):
                t.attrSet("class", "hl" if deco == 1 else "a b")
                if deco == 2:
                    t.attrJoin("class", "c")
                    t.attrSet("data-n", 7)
                    t.meta = {"k": [1, {"z": None}]}
    base_val = val0(toks)
    base_html = C.ascii_safe(md.renderer.render(copy.deepcopy(toks), md.options, env))
    ev = []
    cur = toks
    for op in ops:
        if op["op"] == "rt":
            e = {"op": "rt", "raised": 0, "eq": 0, "val0": "", "html": ""}
            try:
                new = [Token.from_dict(t.as_dict(children=op["children"], as_upstream=(op["fmt"] == "upstream"))) for t in cur]
                e["eq"] = 1 if all(a == b for a, b in zip(new, cur)) and len(new) == len(cur) else 0
                e["val0"] = val0(new)
                e["html"] = C.ascii_safe(md.renderer.render(copy.deepcopy(new), md.options, env))
                cur = new
            except Exception as ex:  # noqa
                e["raised"] = 1
                e["exc"] = type(ex).__name__
            ev.append(e)
        elif op["op"] == "tree":
            ev.append(tree_event(cur))
        else:
            h = C.ascii_safe(md.renderer.render(cur, md.options, env))
            ev.append({"op": "render", "html": h, "val0": val0(cur)})
    return {"val0": base_val, "html": base_html, "n": len(toks), "ev": ev}, len(toks)


def run(tier, rep):
    q = tier == "quick"
    r = C.run_tlc("RoundTrip", "RoundTrip.cfg", allow_violation=False, workers=4)
    rep.tlc("RoundTrip", r)
    seqs = sorted({l for l in r.out.splitlines() if l.startswith('"[{')})
    seqs = [json.loads(json.loads(l)) for l in seqs]
    if len(seqs) < 500:
        raise C.MachineryError("too few operation sequences")
    l1 = gen.docs("L1", tier, rep, cfg="DocGen_L1_small.cfg" if q else None)
    l2 = gen.docs("L2", tier, rep)
    cfgs = gen.configs(tier, rep)
    special = ["1. a\n2. b\n", "5) x\n", "![a ![b](/c) *d*](/e \"t\")\n", "**a**\n", "same\nsame\n", "**note** see above, **note**\n",
               "- \n", ">\n", "[x]\n\n[x]: /u\n", "| a |\n|---|\n| b |\n", "```py\nx\n```\n", "<div>\n", "a  \nb\\\nc\n"]
    docs = gen.sample(l1, 7000 if q else 100000, C.SEED, keep_short=400) + gen.sample(l2, 9000 if q else 150000, C.SEED + 1) + special * 20 \
        + gen.twins(gen.sample(l1, 1500 if q else 20000, C.SEED + 4) + gen.sample(l2, 1500 if q else 20000, C.SEED + 5), C.SEED, per_doc=1)
    ld = [d for d in gen.docs("LD", tier, rep, wrapname="WrapD") if "~" in d]
    docs += gen.sample(ld, 6000 if q else len(ld), C.SEED + 6) + gen.sample(gen.emphasis_sentences(rep), 1500 if q else 20000, C.SEED + 7)
    ck = [gen.cfg_key(c) for c in gen.BASE_CONFIGS] + [gen.cfg_key({"preset": "commonmark", "on": [], "off": [], "opts": [["store_labels", "T"], ["inline_definitions", "T"]]})] \
        + [gen.cfg_key({"preset": "commonmark", "on": [], "off": ["fragments_join"], "opts": []}),
           gen.cfg_key({"preset": "js-default", "on": [], "off": ["balance_pairs", "text_join"], "opts": []})] \
        + gen.sample([gen.cfg_key(c) for c in cfgs], 30 if q else 300, C.SEED + 2)
    jobs = [(ck[k % len(ck)], d, seqs[(k * 31 + 7) % len(seqs)], (0, 0, 1, 0, 2)[k % 5]) for k, d in enumerate(docs)]
    res = C.pmap(execute, jobs, chunk=200)
    traces = [x[0] for x in res]
    verdicts, st = C.validate_traces("RoundTripTrace", traces, shard=3000, heap="8g")
    rep.tlc_stats("RoundTripTrace", st, len(traces))
    for job, tr, (v, pos) in zip(jobs, traces, verdicts):
        if v != "ok":
            rep.violation(f"{v}:{json.dumps(job[2][:pos - 1])}:{job[0]}:{json.dumps(job[1])}"[:700],
                          {"engine": "trace", "module": "RoundTripTrace", "clause": v, "event_index": pos - 2,
                           "input": {"config": json.loads(job[0]), "doc": job[1], "ops": job[2], "deco": job[3]},
                           "event": {k: x for k, x in tr["ev"][pos - 2].items() if k not in ("val0", "html", "nodes")}})
    rep.sample({"doc": jobs[9][1], "ops": jobs[9][2]})
    rep.cov["evaluations"] = len(jobs)
    rep.cov["distinct_nontrivial"] = len({(j[0], j[1], json.dumps(j[2])) for j, x in zip(jobs, res) if x[1] >= 3})
    rep.cov["bounds"] = {"operation_sequences": len(seqs), "documents": len(docs), "configs": len(ck)}
    rep.assumptions += ["two of five streams are decorated through the public Token API (class / data attributes, meta) before the operations run, as a plugin would"]
    rep.cov["rule"] = "case = (configuration, document, operation sequence); non-trivial = the stream has at least 3 tokens"
    rep.cov["exhaustive"] = False


def replay(case, rep):
    i = case["input"]
    t, _ = execute((gen.cfg_key(i["config"]), i["doc"], i["ops"], i.get("deco", 0)))
    v, _ = C.validate_traces("RoundTripTrace", [t])
    if v[0][0] != "ok":
        rep.violation(case.get("key", "replay"), case)


def selftest():
    ck = gen.cfg_key(gen.BASE_CONFIGS[0])
    t, _ = execute((ck, "a *b*\n\n- c\n", [{"op": "tree"}, {"op": "rt", "fmt": "py", "children": False}, {"op": "render"}]))
    v, _ = C.validate_traces("RoundTripTrace", [t])
    assert v[0][0] == "ok", v
    t["ev"][0]["nodes"][2][3] = 99
    v, _ = C.validate_traces("RoundTripTrace", [t])
    assert v[0][0] == "links_inconsistent", v
    print("selftest C15 ok:", v[0])
    return 0
