"""C06 - CommonMark container laws: quoting or list-indenting a document nests its blocks.

E1: DocAlgebra.tla (operation sequences keep the predicted parse well formed; Lift/Shift commute).
E2: seeds from DocGen.tla (line shapes, newline-terminated) x operation sequences from
    DocAlgebra.tla (Quote, ListWrap(marker, 1-4 spaces), concatenating a paragraph; containers
    within containers) are applied textually and parsed by the real parser.
E3: every step (base document, derived document, both observed parses) is validated by TLC
    against DocAlgebraTrace.tla: QuoteLaw / ListLaw, side conditions evaluated in the spec.
"""
from __future__ import annotations

import json
import random

from .. import common as C
from .. import gen
from .. import algebra as A

PID = "C06"
CFG = gen.cfg_key({"preset": "commonmark", "on": [], "off": [], "opts": []})
CFG100 = gen.cfg_key({"preset": "commonmark", "on": [], "off": [], "opts": [["maxNesting", "100"]]})


def steps(job):
    """One seed + one operation sequence -> a list of law traces (one per quote/list step)."""
    doc, ops, cfgkey = job
    md = A.md_for(cfgkey)
    maxn = md.options["maxNesting"]
    out = []
    cur = doc
    base = A.parse(md, cur, kidsw=True)
    for op in ops:
        if op["op"] == "concat_leaf":
            cur = cur + "\nzz\n"
            base = A.parse(md, cur, kidsw=True)
            continue
        if op["op"] == "quote":
            nxt = A.quote(cur)
            der = A.parse(md, nxt, kidsw=True)
            out.append({"op": "quote", "maxn": maxn, "a": {}, "base": base, "der": der, "_doc": cur, "_op": op})
        else:
            if cur == "":
                break
            nxt = A.listwrap(cur, op["marker"], op["w"])
            der = A.parse(md, nxt, kidsw=True)
            out.append({"op": "list", "maxn": maxn, "a": A.list_args(op), "base": base, "der": der, "_doc": cur, "_op": op})
        cur, base = nxt, der
    return out


def build_jobs(tier, rep):
    q = tier == "quick"
    l1 = [d + "\n" for d in gen.docs("L1", tier, rep)]
    ops = A.opseqs(tier, rep)
    rnd = random.Random(C.SEED)
    seeds = gen.sample(l1, 9000 if q else 120000, C.SEED, keep_short=1500)
    # Unicode look-alikes (ordinary characters for Markdown: the laws hold for them as for any letter)
    seeds += [t for t in gen.twins(gen.sample(l1, 2500 if q else 40000, C.SEED + 6, keep_short=500), C.SEED, per_doc=1) if t.endswith("\n")]
    jobs = []
    for k, d in enumerate(seeds):
        # every seed: the two single-step forms with a rotating marker, plus one longer sequence
        jobs.append((d, ops[k % len(ops)], CFG100 if k % 2 else CFG))
        jobs.append((d, ops[(k * 7 + 3) % len(ops)], CFG100))
    singles = [o for o in ops if len(o) == 1 and o[0]["op"] != "concat_leaf"]
    for k, d in enumerate(gen.sample(l1, 3000 if q else 40000, C.SEED + 1, keep_short=800)):
        for o in singles:
            if (k + hash(json.dumps(o, sort_keys=True))) % (4 if q else 1) == 0:
                jobs.append((d, o, CFG))
    # stratum: indented code inside a quote / list (relative vs absolute indentation), every single-step form
    import re
    codeish = [d for d in l1 if re.search(r"(^|\n)(>|[-*+]|\d+[.)]) {5,}\S", d)]
    for k, d in enumerate(gen.sample(codeish, 1200 if q else 40000, C.SEED + 7, keep_short=600)):
        for o in singles:
            jobs.append((d, o, CFG))
    # stratum: documents that open an HTML block of the kinds that run across blank lines (comment, processing
    # instruction, CDATA, <pre> ...): inside a list item the block must end exactly where it ends at top level
    htmlish = [d for d in l1 if re.match(r" {0,3}([-*+] |\d+[.)] |> )?<(!--|\?|!\[CDATA\[|pre|!A|script|style|textarea)", d, re.I)]
    for k, d in enumerate(gen.sample(htmlish, 900 if q else 40000, C.SEED + 8, keep_short=500)):
        for o in singles:
            jobs.append((d, o, CFG))
    # stratum: fenced blocks holding fence-like lines (a shorter / longer / indented run of the fence character):
    # which line closes the fence must not depend on the container's indentation
    fenceish = gen.fence_docs() + [d for d in l1 if re.search(r"(^|\n) {0,3}(`{3,}|~{3,})[^\n]*\n(.*\n)* {0,3}(`{2,}|~{2,}) *(\n|$)", d)]
    for k, d in enumerate(gen.sample(fenceish, 1500 if q else 40000, C.SEED + 9, keep_short=300)):
        for j, o in enumerate(singles):
            if (k + j) % (4 if q else 1) == 0:
                jobs.append((d, o, CFG))
    tails = gen.container_tail_docs()
    for k, d in enumerate(gen.sample(tails, 1200 if q else 10 ** 9, C.SEED + 10)):
        jobs.append((d, singles[k % len(singles)], CFG))
        jobs.append((d, singles[(k * 5 + 1) % len(singles)], CFG100))
    rep.cov["bounds"] = {"fence_body_seeds": len(fenceish), "container_tail_seeds": len(tails), "html_block_seeds": len(htmlish), "code_in_container_seeds": len(codeish), "L1_seeds_enumerated": len(l1), "seeds_used": len(seeds), "op_sequences": len(ops),
                         "seed_x_sequence_cases": len(jobs)}
    rep.cov["exhaustive"] = False
    return jobs


def run(tier, rep, pid=PID):
    jobs = build_jobs(tier, rep)
    # executed and validated in slices (bounded memory in the thorough tier)
    meta, verdicts = [], []
    acc = {"generated": 0, "distinct": 0, "shards": 0, "tlc_wall": 0.0}
    for lo in range(0, len(jobs), 60000):
        res = C.pmap(steps, jobs[lo: lo + 60000], chunk=100)
        traces = []
        for job, ts in zip(jobs[lo: lo + 60000], res):
            for t in ts:
                meta.append((job[2], t.pop("_doc"), t.pop("_op")))
                traces.append(t)
        del res
        vs, st = C.validate_traces("DocAlgebraTrace", traces, shard=2500, heap="10g")
        verdicts += vs
        for kk in acc:
            acc[kk] += st[kk]
        del traces
    rep.tlc_stats("DocAlgebraTrace[quote/list]", acc, len(meta))
    traces = range(len(meta))
    skips, held = {}, 0
    for (cfgkey, doc, op), (v, pos) in zip(meta, verdicts):
        if v == "ok":
            held += 1
        elif v.startswith("skip:"):
            skips[v] = skips.get(v, 0) + 1
        elif v.startswith("harness:"):
            raise C.MachineryError(f"law trace rejected as malformed: {v} on {doc!r} {op}")
        else:
            rep.violation(f"{op['op']}:{v}:{json.dumps(op, sort_keys=True)}:{json.dumps(doc)}",
                          {"engine": "trace", "module": "DocAlgebraTrace", "clause": v,
                           "input": {"config": json.loads(cfgkey), "doc": doc, "op": op}})
    if held < 1000:
        raise C.MachineryError(f"only {held} law instances passed their guards")
    rep.sample({"doc": meta[3][1], "op": meta[3][2]})
    rep.sample({"doc": meta[-1][1], "op": meta[-1][2]})
    rep.cov["evaluations"] = len(traces)
    rep.cov["distinct_nontrivial"] = held
    rep.cov["guard_skips"] = skips
    rep.cov["rule"] = ("case = one law instance (base document, operation); non-trivial = all side conditions of the law hold "
                       "(evaluated by the specification) and the prediction was compared; skipped instances are counted per guard")


def replay(case, rep):
    i = case["input"]
    ts = steps((i["doc"], [i["op"]], gen.cfg_key(i["config"])))
    for t in ts:
        t.pop("_doc"); t.pop("_op")
    v, _ = C.validate_traces("DocAlgebraTrace", ts)
    if any(not (x[0] == "ok" or x[0].startswith("skip:")) for x in v):
        rep.violation(case.get("key", "replay"), case)


def selftest():
    ts = steps(("a\n\n- b\n", [{"op": "quote"}], CFG))
    t = ts[0]; t.pop("_doc"); t.pop("_op")
    v, _ = C.validate_traces("DocAlgebraTrace", [t])
    assert v[0][0] == "ok", v
    t["der"]["toks"][2]["lv"] = 0
    v, _ = C.validate_traces("DocAlgebraTrace", [t])
    assert v[0][0] == "level", v
    print("selftest C06 ok:", v[0])
    return 0
