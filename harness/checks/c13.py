"""C13 - concurrent or nested parses on a shared instance do not interfere.

E1: TLC checks LazyCompile.tla (head variant: NoPartialView, ResultsAsSolo, PublishedIsComplete,
    Termination under fairness); the as_found variant must still produce the counter-example.
E2: systematic schedules on the real code: two (thorough: three) calls on one shared instance,
    the first pre-empted at every bytecode event inside ruler.py and at sampled / all line events
    elsewhere; both orders; fresh, reconfigured and pre-compiled instances; plus re-entrant calls
    from render rules and core rules at every invocation index.
E3: every execution is recorded (getRules returns, results) and validated by TLC against
    LazyCompileTrace.tla.
"""
from __future__ import annotations

import hashlib
import json
import random

from .. import common as C
from .. import sched

PID = "C13"

DOCS = [
    ("render", "a *b* `c`\n\n- d\n- e\n\n```py first\nx\n```\n\n[y]: /v \"w\"\n\n[y] and ![j][y] &amp; \\* <http://a.b>\n"),
    ("render", "intro line\n# Heading\ntext\n> quote\n\n[x]: /u 't'\n\n[x] ![i](/s)\n\n~~~rb\ny\n~~~\n"),
    ("parse", "1. one\n2. two\nlazy\n\n```py\ncode\n```\n***\n"),
    ("renderInline", "~~s~~ **t** <http://x.y> &amp;"),
]

CONFIGS = ["commonmark", "js-default", "zero", "reconfigured", "precompiled"]
CHAINS = ["", "paragraph", "reference", "blockquote", "list"]


def make_md(cfg):
    from markdown_it import MarkdownIt

    if cfg == "reconfigured":
        md = MarkdownIt("js-default")
        md.render("warm *up*\n")
        md.disable(["table"]).enable(["table"]).disable("smartquotes", True)
        return md
    if cfg == "precompiled":
        md = MarkdownIt("commonmark")
        md.render("warm *up*\n> q\n")
        return md
    return MarkdownIt(cfg)


def digest_of(api):
    def d(res):
        if api.startswith("render"):
            s = res
        else:
            s = json.dumps([t.as_dict() for t in res], sort_keys=True, default=str)
        return hashlib.sha1(s.encode("utf-8", "surrogatepass")).hexdigest()[:16]
    return d


_TW = {}
_SOLO = {}


def twin_tables(cfg):
    """fn ids and complete chains from an untouched twin instance (solo, single thread)."""
    if cfg in _TW:
        return _TW[cfg]
    _TW[cfg] = _twin_tables(cfg)
    return _TW[cfg]


def _twin_tables(cfg):
    md = make_md(cfg)
    fnid, full = {}, []
    for rname, ruler in (("core", md.core.ruler), ("block", md.block.ruler), ("inline", md.inline.ruler),
                         ("inline2", md.inline.ruler2)):
        main = ruler.getRules("")
        for i, f in enumerate(main):
            fnid[id(f)] = (len(fnid) + 1)
        for c in CHAINS:
            full.append([rname, c, [fnid.get(id(f), 0) for f in ruler.getRules(c)]])
    return fnid, full


def solo_results(cfg, calls):
    k = (cfg, tuple(calls))
    if k not in _SOLO:
        _SOLO[k] = _solo_results(cfg, calls)
    return _SOLO[k]


def _solo_results(cfg, calls):
    out = []
    for api, doc in calls:
        md = make_md(cfg)
        try:
            out.append({"ev": "ret", "res": digest_of(api)(getattr(md, api)(doc, {}))})
        except Exception as ex:  # noqa
            out.append({"ev": "exc", "res": type(ex).__name__})
    return out


def one_run(job):
    cfg, calls, schedule, opcodes = job
    sched.warm()
    fnid, full = twin_tables(cfg)
    md = make_md(cfg)
    run = sched.Run(md, [(api, doc, digest_of(api)) for api, doc in calls], fnid, opcodes=opcodes)
    ev = run.execute(schedule)
    return {"ev": ev, "full": full, "solo": solo_results(cfg, calls)}, run.count, run.where, run.shared_lines, run.all_lines


def plan_points(cfg, calls, opcodes=True):
    """Count events of the first call when run unpre-empted on a shared instance (planning run)."""
    _, cnt, where, shared, alll = one_run((cfg, calls, [], opcodes))
    shared[0]["__all__"] = sorted(set(alll[0].values()))
    return cnt, where, shared


def nested_run(job):
    """Re-entrancy: the outer call re-enters the parser from user code at its i-th invocation."""
    cfg, outer, inner, site, i = job
    fnid, full = twin_tables(cfg)
    md = make_md(cfg)
    events = []
    state = {"n": 0, "busy": False}
    api_i, doc_i = inner

    def reenter():
        state["n"] += 1
        if state["n"] == i and not state["busy"]:
            state["busy"] = True
            try:
                r = getattr(md, api_i)(doc_i, {})
                events.append({"ev": "ret", "t": 2, "res": digest_of(api_i)(r)})
            except Exception as ex:  # noqa
                events.append({"ev": "exc", "t": 2, "res": type(ex).__name__})
            finally:
                state["busy"] = False

    if site == "core":
        def core_rule(st):
            reenter()
        md.core.ruler.before("inline", "verif_reenter", core_rule)
    elif site == "block":
        def block_rule(st, a, b, silent):
            reenter()
            return False
        md.block.ruler.before("paragraph", "verif_reenter", block_rule, {"alt": ["paragraph"]})
    elif site == "inline":
        def inline_rule(st, silent):
            reenter()
            return False
        md.inline.ruler.before("emphasis", "verif_reenter", inline_rule)
    elif site == "highlight":
        def hl(content, lang, attrs):
            reenter()
            return ""
        md.options["highlight"] = hl
    else:  # render rule on text tokens
        from markdown_it.renderer import RendererHTML

        def text_rule(self, tokens, idx, options, env):
            reenter()
            return RendererHTML.text(self, tokens, idx, options, env)
        md.add_render_rule("text", text_rule)
    api_o, doc_o = outer
    # solo: same instance shape (with the extra rule installed but never re-entering)
    solo = []
    for api, doc in (outer, inner):
        md2 = make_md(cfg)
        _install_noop(md2, site)
        try:
            solo.append({"ev": "ret", "res": digest_of(api)(getattr(md2, api)(doc, {}))})
        except Exception as ex:  # noqa
            solo.append({"ev": "exc", "res": type(ex).__name__})
    try:
        r = getattr(md, api_o)(doc_o, {})
        events.append({"ev": "ret", "t": 1, "res": digest_of(api_o)(r)})
    except Exception as ex:  # noqa
        events.append({"ev": "exc", "t": 1, "res": type(ex).__name__})
    if not any(e["t"] == 2 for e in events):
        return None  # the site was invoked fewer than i times: nothing re-entered
    return {"ev": events, "full": full, "solo": solo}


def _install_noop(md, site):
    if site == "core":
        md.core.ruler.before("inline", "verif_reenter", lambda st: None)
    elif site == "block":
        md.block.ruler.before("paragraph", "verif_reenter", lambda st, a, b, s: False, {"alt": ["paragraph"]})
    elif site == "inline":
        md.inline.ruler.before("emphasis", "verif_reenter", lambda st, s: False)
    elif site == "highlight":
        md.options["highlight"] = lambda content, lang, attrs: ""
    else:
        from markdown_it.renderer import RendererHTML
        md.add_render_rule("text", lambda self, tokens, idx, options, env: RendererHTML.text(self, tokens, idx, options, env))


def build_jobs(tier, rnd):
    jobs = []
    # the last pair: both calls deep in nested link labels (12 + 10 levels against maxNesting = 20 of commonmark):
    # per-call budgets (nesting, recursion) must not be shared between overlapping calls
    # ... and both deep in block containers (12 + 11 quotes / list items against the same limit)
    deep = (("render", "> " * 6 + "- " * 3 + "[[[[[[[[[[[[a]]]]]]]]]]]](/a) *[x](/y)*\n"),
            ("render", "> " * 11 + "[[[[[[[[[[b]]]]]]]]]](/b)\n"))
    # per-parse caches (the code-span closer table filled by the first unmatched backtick run, delimiter lists, the
    # pending text): two short inline texts that each fill and later consult them, pre-empted at EVERY event
    # (the second text has its unmatched runs EARLY, the first its code spans LATE: a table entry of the one is a
    # plausible but wrong "no closer ahead" for the other)
    cache = (("renderInline", "```` a b c `d` e ``f`` ```g``` *h* ~~i~~ [j](/k)"), ("renderInline", "```` ` `` ``` x **w** _v"))
    cache2 = (cache[1], cache[0])
    pairs = [(DOCS[0], DOCS[1]), (DOCS[1], DOCS[0]), (DOCS[2], DOCS[1]), deep, cache, cache2, (DOCS[3], DOCS[1]), (DOCS[1], DOCS[3])]
    cfgs = CONFIGS if tier == "thorough" else ["commonmark", "js-default", "reconfigured"]
    info = {"ruler_points": 0, "other_points": 0}
    for cfg in cfgs:
        for pa in (pairs if tier == "thorough" else pairs[:6]):
            if (pa is deep or pa is cache or pa is cache2) and cfg != "commonmark" and tier != "thorough":
                continue
            calls = list(pa)
            cnt, where, shared = plan_points(cfg, calls)
            n0 = cnt[0]
            inr = set(where[0])
            others = [k for k in range(1, n0 + 1) if k not in inr]
            inr = sorted(inr)
            # every distinct line of the shared-object modules that the first call executes, at its first occurrence
            everywhere = shared[0].pop("__all__")
            firsts = sorted(set(shared[0].values()))
            if not jobs:
                # first (configuration, pair): the first occurrence of EVERY distinct library line (state shared between
                # calls may also live at module level, anywhere in the package)
                firsts = sorted(set(firsts) | set(everywhere))
                info["all_library_lines"] = len(everywhere)
            info["shared_module_lines"] = info.get("shared_module_lines", 0) + len(firsts)
            if pa is cache or pa is cache2:
                pass                      # every event of the first call is a pre-emption point
            elif tier == "quick":
                others = sorted(set(rnd.sample(others, min(400 if pa is deep else 60, len(others))) + firsts))
                if jobs:  # quick: every bytecode of ruler.py for the first (config, pair), a sample for the rest
                    inr = sorted(rnd.sample(inr, min(250, len(inr))))
            info["ruler_points"] += len(inr)
            info["other_points"] += len(others)
            for k in inr + others:
                # A runs up to its k-th event and is parked, B runs to completion, then A resumes
                jobs.append((cfg, calls, [(0, k), (1, None)], True))
            # two pre-emptions: A until k1, B until k2, A done, B done
            m = 150 if tier == "quick" else 1500
            n1 = cnt[1]
            for _ in range(m):
                k1 = rnd.choice(inr) if rnd.random() < 0.7 else rnd.randint(1, n0)
                k2 = rnd.randint(1, max(1, n1))
                jobs.append((cfg, calls, [(0, k1), (1, k2)], True))
        if tier == "thorough":
            calls = [DOCS[0], DOCS[1], DOCS[2]]
            cnt, where, _sh = plan_points(cfg, calls)
            for _ in range(1500):
                sch = []
                for _s in range(rnd.randint(2, 5)):
                    t = rnd.randrange(3)
                    sch.append((t, rnd.randint(1, max(1, cnt[t]))))
                jobs.append((cfg, calls, sch, True))
    return jobs, info


def _key(kind, cfg, calls, sched_, verdict):
    return f"{kind}:{verdict}:{cfg}:{[c[0] for c in calls]}:{sched_}"


def run(tier, rep):
    rnd = random.Random(C.SEED)
    r = C.run_tlc("MCLazyCompile", "LazyCompile_head.cfg", allow_violation=False, coverage=True)
    rep.tlc("LazyCompile[head, 2 threads x 3 calls, 2 rulers]", r)
    ra = C.run_tlc("MCLazyCompile", "LazyCompile_asfound.cfg")
    if ra.ok or ra.violated != "NoPartialView":
        raise C.MachineryError("as_found LazyCompile no longer violates NoPartialView (vacuity guard)")
    rep.tlc("LazyCompile[as_found, expected counter-example]", ra)
    if tier == "thorough":
        r3 = C.run_tlc("MCLazyCompile", "LazyCompile_head3.cfg", allow_violation=False, heap="16g", timeout=3000)
        rep.tlc("LazyCompile[head, 3 threads]", r3)
    jobs, info = build_jobs(tier, rnd)
    # executed and validated in slices (bounded memory in the thorough tier)
    verdicts, st, kept, _first = C.run_sliced(one_run, jobs, "LazyCompileTrace", slice_size=4000, chunk=8,
                                              trace_of=lambda x: x[0],
                                              keep=lambda x: (sum(1 for e in x[0]["ev"] if e["ev"] == "getrules"), len(x[0]["ev"])),
                                              shard=1500)
    n_get = sum(k[0] for k in kept)
    if n_get == 0:
        raise C.MachineryError("no getRules observation recorded: the observer lost its binding")
    rep.tlc_stats("LazyCompileTrace[threads]", st, len(jobs))
    shown = 0
    for job, (v, pos) in zip(jobs, verdicts):
        if v != "ok":
            obs = []
            if shown < 25:      # the schedule is deterministic: the trace is recorded again for the report
                shown += 1
                obs = one_run(job)[0]["ev"][max(0, pos - 4): pos]
            rep.violation(_key("threads", job[0], job[1], job[2], v),
                          {"engine": "trace", "module": "LazyCompileTrace", "clause": v, "event_index": pos - 1,
                           "kind": "threads", "config": job[0], "calls": job[1], "schedule": job[2],
                           "observed": obs})
    rep.sample({"config": jobs[0][0], "calls": jobs[0][1], "schedule": jobs[0][2], "events": kept[0][1]})
    rep.sample({"config": jobs[-1][0], "calls": jobs[-1][1], "schedule": jobs[-1][2], "events": kept[-1][1]})
    # nested / re-entrant
    njobs = []
    for cfg in (["commonmark", "js-default"] if tier == "quick" else CONFIGS):
        for outer, inner in ((DOCS[0], DOCS[1]), (DOCS[1], DOCS[0]), (DOCS[1], DOCS[2])):
            for site in ("core", "block", "inline", "render", "highlight"):
                if site in ("render", "highlight") and not outer[0].startswith("render"):
                    continue
                for i in range(1, 41 if tier == "quick" else 200):
                    njobs.append((cfg, outer, inner, site, i))
    nres = C.pmap(nested_run, njobs, chunk=16)
    keep = [(j, t) for j, t in zip(njobs, nres) if t is not None]
    if not keep:
        raise C.MachineryError("no re-entrant execution was produced")
    verdicts, st = C.validate_traces("LazyCompileTrace", [t for _, t in keep], shard=3000)
    rep.tlc_stats("LazyCompileTrace[nested]", st, len(keep))
    for (job, t), (v, pos) in zip(keep, verdicts):
        if v != "ok":
            rep.violation(_key("nested", job[0], [job[1], job[2]], [job[3], job[4]], v),
                          {"engine": "trace", "module": "LazyCompileTrace", "clause": v, "kind": "nested",
                           "config": job[0], "outer": job[1], "inner": job[2], "site": job[3], "i": job[4],
                           "observed": t["ev"]})
    rep.sample({"nested": {"config": keep[0][0][0], "site": keep[0][0][3], "i": keep[0][0][4]}})
    rep.cov["evaluations"] = len(jobs) + len(keep)
    rep.cov["distinct_nontrivial"] = len({json.dumps([j[0], j[1], j[2]]) for j in jobs if j[2]}) + len(keep)
    rep.cov["rule"] = ("one case = (instance state, calls, schedule); schedules pre-empt the first call at every bytecode "
                       "event inside ruler.py and at line events elsewhere (quick: the first occurrence of every distinct line of the shared-object modules plus a sample, thorough: all), plus seeded "
                       "double pre-emptions and (thorough) 3-thread schedules; nested = re-entry from core/block/inline/"
                       "render / highlight user code at the i-th invocation; non-trivial = at least one pre-emption / one re-entry")
    rep.cov["bounds"] = dict(info, getrules_observations=n_get, schedules=len(jobs), nested=len(keep))
    rep.assumptions += ["pre-emption is explored under the GIL at bytecode granularity inside ruler.py and line granularity "
                        "elsewhere; true parallelism (free-threaded builds) is out of reach of sys.settrace",
                        "rule functions are module-level objects shared by all instances (used to name them)"]


def replay(case, rep):
    if case.get("kind") == "nested":
        job = (case["config"], tuple(case["outer"]), tuple(case["inner"]), case["site"], case["i"])
        t = nested_run(job)
        v, _ = C.validate_traces("LazyCompileTrace", [t])
        if v[0][0] != "ok":
            rep.violation(case.get("key", "nested"), case)
        return
    job = (case["config"], [tuple(c) for c in case["calls"]], [tuple(x) for x in case["schedule"]], True)
    t = one_run(job)[0]
    v, _ = C.validate_traces("LazyCompileTrace", [t])
    if v[0][0] != "ok":
        rep.violation(case.get("key", "threads"), case)


def selftest():
    job = ("commonmark", [DOCS[0], DOCS[1]], [(0, 30), (1, None)], True)
    t = one_run(job)[0]
    v, _ = C.validate_traces("LazyCompileTrace", [t])
    assert v[0][0] == "ok", v
    for e in t["ev"]:
        if e["ev"] == "getrules" and e["fns"]:
            e["fns"] = e["fns"][:-1]
            break
    v, _ = C.validate_traces("LazyCompileTrace", [t])
    assert v[0][0] == "partial_chain", v
    print("selftest C13 ok: truncated chain observation rejected:", v[0])
    return 0
