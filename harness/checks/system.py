"""System-level contracts (growth, DESIGN section 8 / 10.9): not one of the listed properties.

Every rule of every chain of a real instance is wrapped (ruler.at, keeping its alt chains) by a
logging delegate; SystemTrace.tla validates the rule contracts Progress.tla assumes (a failed rule
pushes nothing and does not move; silent calls create no tokens; a successful call advances inside
its frame; level and posMax are restored) and the order of the core pipeline.
    ./check system [--tier quick|thorough]      (reports under the id SYSTEM; never a listed property)
"""
from __future__ import annotations

import json

from .. import common as C
from .. import gen
from .. import facade

PID = "SYSTEM"
_MD = {}


def _env_print(env):
    """What a block rule may leave in env, as far as the contracts care: the keys, and how many definitions /
    duplicates are recorded."""
    try:
        return (tuple(sorted(map(str, env))), len(env.get("references", ())), len(env.get("duplicate_refs", ())))
    except Exception:
        return None


def wrapped(cfgkey):
    if cfgkey in _MD:
        return _MD[cfgkey]
    md = gen.make_md(json.loads(cfgkey))
    log = []
    depth = [0, 0]
    K = facade.spec_constants()
    alt = {"table": ["paragraph", "reference"], "fence": ["paragraph", "reference", "blockquote", "list"],
           "blockquote": ["paragraph", "reference", "blockquote", "list"], "hr": ["paragraph", "reference", "blockquote", "list"],
           "list": ["paragraph", "reference", "blockquote"], "html_block": ["paragraph", "reference", "blockquote"],
           "heading": ["paragraph", "reference", "blockquote"]}

    def all_fns(ruler):
        act = ruler.get_active_rules()
        names = ruler.get_all_rules()
        ruler.enable(names)
        fns = list(ruler.getRules(""))
        ruler.enableOnly(act)
        return list(zip(names, fns)), act

    pairs, act = all_fns(md.core.ruler)
    for name, fn in pairs:
        def mk(name=name, fn=fn):
            def w(state):
                log.append(["c", name])
                return fn(state)
            return w
        md.core.ruler.at(name, mk())
    md.core.ruler.enableOnly(act)
    pairs, act = all_fns(md.block.ruler)
    for name, fn in pairs:
        def mkb(name=name, fn=fn):
            def w(state, startLine, endLine, silent):
                l0, n0, v0 = state.line, len(state.tokens), state.level
                slot = len(log)
                log.append(None)          # events are kept in order of rule ENTRY
                depth[0] += 1
                t0 = (state.bMarks[:], state.eMarks[:], state.tShift[:], state.sCount[:], state.bsCount[:],
                      state.blkIndent, state.listIndent, state.parentType)
                env0 = _env_print(state.env)
                try:
                    r = fn(state, startLine, endLine, silent)
                finally:
                    depth[0] -= 1
                t1 = (state.bMarks, state.eMarks, state.tShift, state.sCount, state.bsCount)
                same = 1 if all(a == b for a, b in zip(t0, t1)) else 0
                ctx = 1 if (state.blkIndent, state.listIndent) == t0[5:7] else 0
                pty = 1 if state.parentType == t0[7] else 0
                log[slot] = ["b", name, 1 if silent else 0, 1 if r else 0, startLine, endLine, l0, state.line, n0,
                             len(state.tokens), v0, state.level, same, ctx, pty, depth[0] + 1,
                             1 if _env_print(state.env) == env0 else 0]
                return r
            return w
        md.block.ruler.at(name, mkb(), {"alt": alt.get(name, [])})
    md.block.ruler.enableOnly(act)
    pairs, act = all_fns(md.inline.ruler)
    for name, fn in pairs:
        def mki(name=name, fn=fn):
            def w(state, silent):
                p0, m0, n0, d0, v0 = state.pos, state.posMax, len(state.tokens), len(state.pending), state.level
                slot = len(log)
                log.append(None)
                depth[1] += 1
                try:
                    r = fn(state, silent)
                finally:
                    depth[1] -= 1
                log[slot] = ["i", name, 1 if silent else 0, 1 if r else 0, p0, state.pos, m0, state.posMax, n0,
                             len(state.tokens), d0, len(state.pending), v0, state.level, depth[1] + 1]
                return r
            return w
        md.inline.ruler.at(name, mki())
    md.inline.ruler.enableOnly(act)
    _MD[cfgkey] = (md, log)
    return _MD[cfgkey]


def record(job):
    cfgkey, doc = job
    md, log = wrapped(cfgkey)
    del log[:]
    out = md.render(doc)
    core = [n for n in md.core.ruler.get_active_rules()]
    return {"core": core, "bchain": md.block.ruler.get_active_rules(), "ichain": md.inline.ruler.get_active_rules(),
            "ev": [e for e in log if e is not None][:6000]}, out


def linetable_record(src):
    """A freshly constructed StateBlock: its five arrays and a battery of reader calls."""
    from markdown_it import MarkdownIt
    from markdown_it.rules_block.state_block import StateBlock

    if not _LT:
        _LT.append(MarkdownIt("commonmark"))
    st = StateBlock(src, _LT[0], {}, [])
    n = len(st.bMarks)
    tab = [[st.bMarks[k], st.eMarks[k], st.tShift[k], st.sCount[k], st.bsCount[k]] for k in range(n)]
    q = []
    L = len(src)
    for k in range(min(st.lineMax + 1, 8)):
        q.append(["isEmpty", [k], 1 if st.isEmpty(k) else 0])
        q.append(["skipEmptyLines", [k], st.skipEmptyLines(k)])
    for p in sorted({0, 1, 2, L // 2, L - 1, L, L + 1} & set(range(0, L + 2))):
        q.append(["skipSpaces", [p], st.skipSpaces(p)])
        if p <= L:
            for m in (0, p // 2):
                q.append(["skipSpacesBack", [p, m], st.skipSpacesBack(p, m)])
            for ch in sorted(set(src[max(0, p - 1): p + 1])):
                q.append(["skipCharsStr", [p, ord(ch)], st.skipCharsStr(p, ch)])
                q.append(["skipCharsStrBack", [p, ord(ch), 0], st.skipCharsStrBack(p, ch, 0)])
    lm = st.lineMax
    for b in range(min(lm, 3)):
        for e in sorted({b + 1, lm}):
            for ind in (0, 1, 2, 3, 4, 5, 8):
                for keep in (0, 1):
                    q.append(["getLines", [b, e, ind, keep], C.cps(st.getLines(b, e, ind, bool(keep)))])
    return {"src": C.cps(src), "tab": tab, "lmax": st.lineMax, "q": q}


_LT = []


def linetable_stage(tier, rep):
    """LineTable.tla: scanner == declarative table for all short strings (TLC), wrong-tab variant must fail;
    LineTableTrace.tla: the real StateBlock's arrays and readers on generated sources."""
    r = C.run_tlc("LineTable", "LineTable.cfg", allow_violation=False)
    rep.tlc("LineTable[scanner refines the table, all strings <= 7 over {SP, TAB, LF, x}]", r)
    rw = C.run_tlc("LineTable", "LineTable_wrongtab.cfg")
    if rw.ok or rw.violated != "ScanRefinesTable":
        raise C.MachineryError("LineTable wrong-tab variant no longer violates ScanRefinesTable (vacuity guard)")
    rep.tlc("LineTable[tab stop 8, expected counter-example]", rw)
    q = tier == "quick"
    l0 = [d for d in gen.docs("L0", tier, rep) if "\r" not in d and "\x00" not in d]
    l1 = [d for d in gen.docs("L1", tier, rep, cfg="DocGen_L1_small.cfg" if q else None) if "\r" not in d and "\x00" not in d]
    srcs = gen.sample(l0, 6000 if q else 60000, C.SEED + 7, keep_short=1500) + gen.sample(l1, 4000 if q else 60000, C.SEED + 8)
    srcs += [t for t in gen.twins(srcs[:5000], C.SEED, per_doc=1) if "\r" not in t and "\x00" not in t]
    srcs += [d + "\n" for d in srcs[:1500]] + [d + "  " for d in srcs[:700]] + [d + "\n\t " for d in srcs[:700]]
    traces = C.pmap(linetable_record, srcs, chunk=300)
    verdicts, st = C.validate_traces("LineTableTrace", traces, shard=1500, heap="8g")
    rep.tlc_stats("LineTableTrace", st, len(traces))
    for src, (v, pos) in zip(srcs, verdicts):
        if v != "ok":
            rep.violation(f"linetable:{v}:{json.dumps(src)}", {"engine": "trace", "module": "LineTableTrace", "clause": v,
                                                                "input": {"linetable_src": src}})
    rep.cov["line_tables_validated"] = len(traces)
    rep.cov["reader_calls_validated"] = sum(len(t["q"]) for t in traces)


def _tok(t):
    return {"ty": t.type, "tag": C.cps(t.tag), "n": t.nesting, "hid": 1 if t.hidden else 0, "blk": 1 if t.block else 0,
            "at": [[C.cps(str(k)), C.cps(str(v))] for k, v in t.attrItems()], "c": C.cps(t.content), "info": C.cps(t.info),
            "kids": [_tok(c) for c in (t.children or [])]}


RCFGS = [
    {"preset": "commonmark", "on": [], "off": [], "opts": []},
    {"preset": "js-default", "on": [], "off": [], "opts": [["breaks", "T"], ["langPrefix", "x\"<"]]},
    {"preset": "commonmark", "on": ["table", "strikethrough"], "off": [], "opts": [["xhtmlOut", "F"], ["inline_definitions", "T"]]},
    {"preset": "js-default", "on": [], "off": ["text_join"], "opts": [["html", "T"], ["xhtmlOut", "T"], ["langPrefix", ""]]},
    {"preset": "zero", "on": [], "off": [], "opts": []},
]


def render_record(job):
    cfgkey, doc = job
    if ("r", cfgkey) not in _MD:
        _MD[("r", cfgkey)] = gen.make_md(json.loads(cfgkey))
    md = _MD[("r", cfgkey)]
    toks = md.parse(doc)
    pre = [_tok(t) for t in toks]          # before rendering: the image rule writes alt into the token
    html = md.renderer.render(toks, md.options, {})
    o = md.options
    return {"opts": {"x": 1 if o["xhtmlOut"] else 0, "br": 1 if o["breaks"] else 0, "lp": C.cps(o["langPrefix"])},
            "toks": pre, "html": C.cps(html)}


def render_stage(tier, rep):
    """RenderTrace.tla: the specification computes the HTML of every token stream; compared with the real renderer."""
    q = tier == "quick"
    l1 = gen.docs("L1", tier, rep, cfg="DocGen_L1_small.cfg" if q else None)
    l2 = gen.docs("L2", tier, rep)
    lm = gen.docs("LM", tier, rep, wrapname="WrapM")
    docs = gen.sample(l1, 6000 if q else 80000, C.SEED + 21, keep_short=400) + gen.sample(l2, 6000 if q else 80000, C.SEED + 22) \
        + gen.sample(lm, 6000 if q else 80000, C.SEED + 23)
    docs += ["- a\n  > q\n- b\n", "1. x\n\n   y\n2. z\n", "- a\n  - b\n\n    c\n", "![a *b* ![c](/d)\ne](/s \"t\")\n",
             "``` a&amp;b c\nx\n```\n", "```\u2003py\u00a0z\n<\n```\n", "~~~ \\*x\n```\n~~~\n", "|a|\n|-|\n||\n", "<div>\n*x*\n</div>\n\n<b>i</b>\n"]
    cfgs = [gen.cfg_key(c) for c in RCFGS]
    jobs = [(cfgs[k % len(cfgs)], d) for k, d in enumerate(docs)]
    traces = C.pmap(render_record, jobs, chunk=300)
    verdicts, st = C.validate_traces("RenderTrace", traces, shard=1500, heap="8g")
    rep.tlc_stats("RenderTrace", st, len(traces))
    for job, (v, pos) in zip(jobs, verdicts):
        if v != "ok":
            rep.violation(f"{v}:{job[0]}:{json.dumps(job[1])}", {"engine": "trace", "module": "RenderTrace", "clause": v,
                                                                 "input": {"render_config": json.loads(job[0]), "doc": job[1]}})
    rep.cov["renders_validated"] = len(traces)
    rep.cov["output_code_points_predicted"] = sum(len(t["html"]) for t in traces)


_DL = []


def delim_record(job):
    """Calls of the real processDelimiters during one parse (observed by replacing the module attribute that
    link_pairs looks up at call time - harness side, nothing in /repo changes)."""
    from markdown_it.rules_inline import balance_pairs as bp

    cfgkey, doc = job
    if ("d", cfgkey) not in _MD:
        _MD[("d", cfgkey)] = gen.make_md(json.loads(cfgkey))
    md = _MD[("d", cfgkey)]
    calls = []
    real = bp.processDelimiters

    def snap(ds):
        return [[d.marker, d.length or 0, d.token, d.end, 1 if d.open else 0, 1 if d.close else 0] for d in ds]

    def spy(state, delimiters):
        before = snap(delimiters)
        real(state, delimiters)
        if before and len(calls) < 40:
            calls.append({"in": before, "out": snap(delimiters)})
    bp.processDelimiters = spy
    try:
        md.parse(doc)
    finally:
        bp.processDelimiters = real
    return {"calls": calls}


def delimiters_stage(tier, rep):
    """Delimiters.tla: Opt == Naive on all small delimiter sequences (TLC); DelimitersTrace.tla on real calls."""
    q = tier == "quick"
    r = C.run_tlc("Delimiters", "Delimiters.cfg" if q else "Delimiters_thorough.cfg", allow_violation=False, timeout=1800)
    rep.tlc("Delimiters[linear-time pairing == reference pairing; pairs well nested]", r)
    rk = C.run_tlc("Delimiters", "Delimiters_keepinner.cfg")
    if rk.ok or rk.violated != "OptIsNaive":
        raise C.MachineryError("Delimiters keep_inner variant no longer violates OptIsNaive (vacuity guard)")
    rep.tlc("Delimiters[reference without removal of inner delimiters, expected counter-example]", rk)
    # emphasis-dense inline text: runs of * _ ~ of length 1-4 between words, punctuation and brackets
    rnd = __import__("random").Random(C.SEED + 31)
    atoms = ["*", "**", "***", "****", "_", "__", "___", "~~", "~~~", "a", "b ", " c", " ", ".", "(", ")", "[", "](/u)", "`x`", "\\*", "a_b", "*a", "a*"]
    docs = []
    for n in range(14000 if q else 200000):
        docs.append("".join(rnd.choice(atoms) for _ in range(rnd.randint(2, 12))))
    l2 = gen.docs("L2", tier, rep)
    docs += gen.sample([d for d in l2 if "*" in d or "_" in d or "~" in d], 6000 if q else 100000, C.SEED + 32)
    es = gen.emphasis_sentences(rep)
    docs += gen.sample(es, 12000 if q else len(es), C.SEED + 33)
    cfgs = [gen.cfg_key(c) for c in ({"preset": "commonmark", "on": ["strikethrough"], "off": [], "opts": []},
                                     {"preset": "js-default", "on": [], "off": [], "opts": []})]
    jobs = [(cfgs[k % 2], d) for k, d in enumerate(docs)]
    res = C.pmap(delim_record, jobs, chunk=300)
    keep = [(j, t) for j, t in zip(jobs, res) if t["calls"]]
    verdicts, st = C.validate_traces("DelimitersTrace", [t for _, t in keep], shard=1500, heap="8g")
    rep.tlc_stats("DelimitersTrace", st, len(keep))
    for (job, t), (v, pos) in zip(keep, verdicts):
        if v != "ok":
            rep.violation(f"{v}:{job[0]}:{json.dumps(job[1])}", {"engine": "trace", "module": "DelimitersTrace", "clause": v,
                                                                 "call_index": pos - 2, "input": {"delim_config": json.loads(job[0]), "doc": job[1]}})
    rep.cov["delimiter_calls_validated"] = sum(len(t["calls"]) for _, t in keep)
    rep.cov["delimiter_calls_with_a_pair"] = sum(1 for _, t in keep for c in t["calls"] if any(d[3] >= 0 for d in c["out"]))


def flank_record(job):
    """One batch of real scanDelims calls: (last, marker, n, next) -> can_open, can_close, length."""
    from markdown_it import MarkdownIt
    from markdown_it.rules_inline.state_inline import StateInline

    if not _LT:
        _LT.append(MarkdownIt("commonmark"))
    calls = []
    for last, m, n, nxt in job:
        src = ("" if last < 0 else chr(last)) + chr(m) * n + ("" if nxt < 0 else chr(nxt))
        st = StateInline(src, _LT[0], {}, [])
        r = st.scanDelims(0 if last < 0 else 1, m != 95)
        calls.append([last, m, n, nxt, 1 if r.can_open else 0, 1 if r.can_close else 0, r.length])
    return {"calls": calls}


def flanking_stage(tier, rep):
    """FlankingTrace.tla: CommonMark's flanking definition vs the real scanDelims, every pair over the alphabet."""
    ws = [9, 10, 11, 12, 13, 32, 160, 5760, 8239, 8287, 12288] + list(range(8192, 8203))
    ap = list(range(33, 48)) + list(range(58, 65)) + list(range(91, 97)) + list(range(123, 127))
    up = [161, 167, 171, 187, 191, 8212, 8216, 8217, 8220, 8230, 12289, 12290, 65281]
    ot = [48, 57, 65, 97, 122, 233, 223, 8364, 169, 176, 215, 768, 8203, 65279, 128512, 19968, 1488]
    alpha = [-1] + ws + ap + up + ot
    jobs, cur = [], []
    for m in (42, 95, 126):
        for a in alpha:
            for b in alpha:
                if a == m or b == m:
                    continue
                for n in ((1, 2, 3) if tier != "quick" or (a + b) % 3 == 0 else (1 + (a + b) % 3,)):
                    cur.append((a, m, n, b))
                    if len(cur) == 250:
                        jobs.append(cur)
                        cur = []
    if cur:
        jobs.append(cur)
    traces = C.pmap(flank_record, jobs, chunk=8)
    verdicts, st = C.validate_traces("FlankingTrace", traces, shard=60, heap="4g")
    rep.tlc_stats("FlankingTrace", st, len(traces))
    for job, t, (v, pos) in zip(jobs, traces, verdicts):
        if v.startswith("harness:"):
            raise C.MachineryError(f"FlankingTrace rejected the harness alphabet: {t['calls'][pos - 2]}")
        if v != "ok":
            c = t["calls"][pos - 2]
            rep.violation(f"flanking:{v}:{c[:4]}", {"engine": "trace", "module": "FlankingTrace", "clause": v, "call": c,
                                                    "input": {"flank_calls": [list(x) for x in job]}})
    rep.cov["scanDelims_calls_validated"] = sum(len(j) for j in jobs)


def leaf_record(lines):
    from markdown_it import MarkdownIt

    if not _LT:
        _LT.append(MarkdownIt("commonmark"))
    md = _LT[0]
    calls = []
    for s in lines:
        toks = md.parse(s)
        if not toks:
            calls.append([C.cps(s), "blank", [], [], -1])
            continue
        t = toks[0]
        st = t.attrs.get("start", -1) if t.attrs else -1
        calls.append([C.cps(s), t.type, C.cps(t.markup), C.cps(t.info), st if isinstance(st, int) and st < 2 ** 31 else -2])
    return {"calls": calls}


def leaf_stage(tier, rep):
    """LeafBlocks.tla: which block a line opens (recognisers and their precedence) vs the real block machine,
    every line up to 4 (thorough: 5) characters over 15 characters, plus longer runs."""
    import itertools

    alpha = " \t-*_+#`~19.)a\\"
    lines = []
    for n in range(0, (5 if tier == "quick" else 6)):
        for tup in itertools.product(alpha, repeat=n):
            lines.append("".join(tup))
    lines += ["#" * k + x for k in range(1, 9) for x in ("", " a", "\ta", "a", " ")]
    lines += [c * k + x for c in "`~" for k in range(1, 7) for x in ("", " js", "a`b", " ~", "`")]
    lines += [(" " * i) + m * k + t for i in range(0, 5) for m in "*-_" for k in range(1, 6) for t in ("", " ", " a", "\t" + m, " " + m + " " + m)]
    lines += [d + e + x for d in ("0", "1", "01", "123456789", "1234567890", "007") for e in ".)" for x in ("", " a", "\ta", "a", "  ")]
    # Unicode look-alikes of the blanks, digits and markers: none of them is a marker or a blank for Markdown
    base = [x for x in lines if 2 <= len(x) <= 4 and x.strip(" \t") and "\n" not in x]
    lines += [t for t in gen.twins(gen.sample(base, 6000 if tier == "quick" else 60000, C.SEED + 41), C.SEED, per_doc=2)
              if "\n" not in t and not any(ch in t for ch in "\u2028\u2029\x85\x0b\x0c\x1c\x1d\x1e")]
    jobs = [lines[i:i + 400] for i in range(0, len(lines), 400)]
    traces = C.pmap(leaf_record, jobs, chunk=4)
    verdicts, st = C.validate_traces("LeafBlocks", traces, shard=40, heap="4g")
    rep.tlc_stats("LeafBlocks", st, len(traces))
    for job, t, (v, pos) in zip(jobs, traces, verdicts):
        if v != "ok":
            c = t["calls"][pos - 2]
            rep.violation(f"{v}:{json.dumps(job[pos - 2])}:got={c[1]}", {"engine": "trace", "module": "LeafBlocks", "clause": v,
                                                                        "observed": c[1:], "input": {"leaf_lines": [job[pos - 2]]}})
    rep.cov["block_starts_validated"] = len(lines)


def html_record(docs):
    from markdown_it import MarkdownIt

    if len(_LT) < 2:
        _LT.append(MarkdownIt("commonmark"))
        _LT.append(MarkdownIt("commonmark"))
    md = _LT[1]
    calls = []
    for lines, para in docs:
        toks = md.parse("\n".join(lines) + "\n")      # every listed line is a line of the document
        t = toks[0] if toks else None
        calls.append([[C.cps(x) for x in lines], t.type if t else "blank", t.map[1] if t is not None and t.map else 0, para])
    return {"calls": calls}


def html_stage(tier, rep):
    """HtmlBlocks.tla: start conditions 1-7, end conditions and paragraph interruption vs the real block machine."""
    import itertools

    shapes = gen.alphabet("HtmlLines")
    hdr = {"names1": [C.cps(x) for x in gen.alphabet("HtmlNames1")], "names6": [C.cps(x) for x in gen.alphabet("HtmlNames6")]}
    starts = [x for x in shapes if x.lstrip(" \t").startswith("<")]
    docs = [([a], 0) for a in shapes if a.strip(" \t")]
    docs += [([a, b], 0) for a in starts for b in shapes]
    docs += [([a, b, c], 0) for a in starts for b in shapes for c in shapes if tier != "quick" or (len(a) + len(b) * 3 + len(c)) % 3 == 0]
    docs += [(["text", b], 1) for b in shapes] + [(["text", b, c], 1) for b in shapes for c in shapes]
    # every block-level name and kind-1 name, in three spellings
    for n in gen.alphabet("HtmlNames6") + gen.alphabet("HtmlNames1"):
        for form in ("<%s>", "</%s>", "<%s", "<%s x", "<%sq>", "<%s/>"):
            line = form % (n.upper() if len(n) % 2 else n)
            docs.append(([line, "t", "", "u"], 0))
            docs.append((["text", line], 1))
    jobs = [docs[i:i + 400] for i in range(0, len(docs), 400)]
    traces = C.pmap(html_record, jobs, chunk=4)
    verdicts, st = C.validate_traces("HtmlBlocks", traces, shard=40, heap="4g", header=hdr)
    rep.tlc_stats("HtmlBlocks", st, len(traces))
    for job, t, (v, pos) in zip(jobs, traces, verdicts):
        if v.startswith("harness:"):
            raise C.MachineryError(f"HtmlBlocks rejected the harness documents: {v} {job[pos - 2]}")
        if v != "ok":
            c = t["calls"][pos - 2]
            rep.violation(f"{v}:{json.dumps(job[pos - 2][0])}:got={c[1]},{c[2]}", {"engine": "trace", "module": "HtmlBlocks", "clause": v,
                                                                                 "observed": c[1:], "input": {"html_docs": [list(job[pos - 2])]}})
    rep.cov["html_block_documents_validated"] = len(docs)


def run(tier, rep):
    html_stage(tier, rep)
    leaf_stage(tier, rep)
    flanking_stage(tier, rep)
    linetable_stage(tier, rep)
    render_stage(tier, rep)
    delimiters_stage(tier, rep)
    q = tier == "quick"
    l1 = gen.docs("L1", tier, rep, cfg="DocGen_L1_small.cfg" if q else None)
    l2 = gen.docs("L2", tier, rep)
    cfgs = [gen.cfg_key(c) for c in gen.BASE_CONFIGS]
    docs = gen.sample(l1, 9000 if q else 100000, C.SEED, keep_short=500) + gen.sample(l2, 9000 if q else 100000, C.SEED + 1)
    jobs = [(cfgs[k % len(cfgs)], d) for k, d in enumerate(docs)]
    res = C.pmap(record, jobs, chunk=200)
    # the wrappers must not change any output
    plain = {}
    bad_out = 0
    for (ck, d), (t, out) in zip(jobs[:2000], res[:2000]):
        if ck not in plain:
            plain[ck] = gen.make_md(json.loads(ck))
        if plain[ck].render(d) != out:
            bad_out += 1
    if bad_out:
        raise C.MachineryError(f"rule wrappers changed the output of {bad_out} documents")
    traces = [t for t, _ in res]
    verdicts, st = C.validate_traces("SystemTrace", traces, shard=1500, heap="8g")
    rep.tlc_stats("SystemTrace", st, len(traces))
    nev = sum(len(t["ev"]) for t in traces)
    for job, t, (v, pos) in zip(jobs, traces, verdicts):
        if v != "ok":
            rep.violation(f"{v}:{t['ev'][pos - 2][1] if 2 <= pos <= len(t['ev']) + 1 else ''}:{job[0]}:{json.dumps(job[1])}",
                          {"engine": "trace", "module": "SystemTrace", "clause": v,
                           "event": t["ev"][pos - 2] if 2 <= pos <= len(t["ev"]) + 1 else None,
                           "input": {"config": json.loads(job[0]), "doc": job[1]}})
    rep.sample({"doc": jobs[4][1], "events": traces[4]["ev"][:6]})
    rep.cov["evaluations"] = len(jobs)
    rep.cov["distinct_nontrivial"] = len({j for j, t in zip(jobs, traces) if len(t["ev"]) > 8})
    rep.cov["rule_invocations_validated"] = nev
    rep.cov["rule"] = "case = (configuration, document); non-trivial = more than 8 rule invocations were logged"
    rep.cov["exhaustive"] = False


def replay(case, rep):
    i = case["input"]
    if "html_docs" in i:
        hdr = {"names1": [C.cps(x) for x in gen.alphabet("HtmlNames1")], "names6": [C.cps(x) for x in gen.alphabet("HtmlNames6")]}
        v, _ = C.validate_traces("HtmlBlocks", [html_record([(d[0], d[1]) for d in i["html_docs"]])], header=hdr)
        if v[0][0] != "ok":
            rep.violation(case.get("key", "replay"), case)
        return
    if "leaf_lines" in i:
        v, _ = C.validate_traces("LeafBlocks", [leaf_record(i["leaf_lines"])])
        if v[0][0] != "ok":
            rep.violation(case.get("key", "replay"), case)
        return
    if "flank_calls" in i:
        v, _ = C.validate_traces("FlankingTrace", [flank_record([tuple(x) for x in i["flank_calls"]])])
        if v[0][0] != "ok":
            rep.violation(case.get("key", "replay"), case)
        return
    if "delim_config" in i:
        v, _ = C.validate_traces("DelimitersTrace", [delim_record((gen.cfg_key(i["delim_config"]), i["doc"]))])
        if v[0][0] != "ok":
            rep.violation(case.get("key", "replay"), case)
        return
    if "render_config" in i:
        v, _ = C.validate_traces("RenderTrace", [render_record((gen.cfg_key(i["render_config"]), i["doc"]))])
        if v[0][0] != "ok":
            rep.violation(case.get("key", "replay"), case)
        return
    if "linetable_src" in i:
        v, _ = C.validate_traces("LineTableTrace", [linetable_record(i["linetable_src"])])
        if v[0][0] != "ok":
            rep.violation(case.get("key", "replay"), case)
        return
    t, _ = record((gen.cfg_key(i["config"]), i["doc"]))
    v, _ = C.validate_traces("SystemTrace", [t])
    if v[0][0] != "ok":
        rep.violation(case.get("key", "replay"), case)


def selftest():
    t, _ = record((gen.cfg_key(gen.BASE_CONFIGS[0]), "> a *b*\n\n[x](/u)\n"))
    v, _ = C.validate_traces("SystemTrace", [t])
    assert v[0][0] == "ok", v
    t["core"] = list(reversed(t["core"]))
    v, _ = C.validate_traces("SystemTrace", [t])
    assert v[0][0] == "core_order", v
    r = render_record((gen.cfg_key(RCFGS[0]), "- a\n  > q *e*\n\n```py\n<\n```\n"))
    v2, _ = C.validate_traces("RenderTrace", [r])
    assert v2[0][0] == "ok", v2
    r["html"] = r["html"][:-2] + r["html"][-1:]
    v2, _ = C.validate_traces("RenderTrace", [r])
    assert v2[0][0].startswith("render:"), v2
    lt = linetable_record("a\n\t b\n  ")
    lt["tab"][1][3] += 1
    v3, _ = C.validate_traces("LineTableTrace", [lt])
    assert v3[0][0] == "line_table", v3
    lf = leaf_record(["- a", "1) x", "  ## h", "~~~ i"])
    v4, _ = C.validate_traces("LeafBlocks", [lf])
    assert v4[0][0] == "ok", v4
    lf["calls"][1][2] = C.cps(".")
    v4, _ = C.validate_traces("LeafBlocks", [lf])
    assert v4[0][0] == "block_start_markup", v4
    fl = flank_record([(97, 42, 2, 32), (-1, 95, 1, 97)])
    fl["calls"][1][4] = 0
    v5, _ = C.validate_traces("FlankingTrace", [fl])
    assert v5[0][0] == "can_open", v5
    hdr = {"names1": [C.cps(x) for x in gen.alphabet("HtmlNames1")], "names6": [C.cps(x) for x in gen.alphabet("HtmlNames6")]}
    hb = html_record([(["<div>", "t", "", "u"], 0), (["text", "<x>"], 1)])
    v6, _ = C.validate_traces("HtmlBlocks", [hb], header=hdr)
    assert v6[0][0] == "ok", v6
    hb["calls"][0][2] = 3
    v6, _ = C.validate_traces("HtmlBlocks", [hb], header=hdr)
    assert v6[0][0] == "html_block_extent", v6
    print("selftest SYSTEM ok:", v[0], v2[0], v3[0], v4[0], v5[0], v6[0])
    return 0
