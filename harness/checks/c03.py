"""C03 - source maps are in range, non-empty, nested and ordered, and cover the input.

Inputs: DocGen line-shape documents (container / blank-line / EOF combinations), character
strings and CR/CRLF re-encodings x block-rule configurations.  Each parse is serialised (normalised
lines as code points, block tokens depth-first with their maps and inline content lines, env
definition maps) and validated by TLC against SourceMapTrace.tla.
"""
from __future__ import annotations

import json
import random
import re

from .. import common as C
from .. import gen

PID = "C03"
_MD = {}
BLOCK_RULES = ["table", "code", "fence", "blockquote", "hr", "list", "reference", "html_block", "heading", "lheading"]


def md_for(k):
    if k not in _MD:
        _MD[k] = gen.make_md(json.loads(k))
    return _MD[k]


def normalise(src):
    return re.sub(r"\r\n?|\n", "\n", src).replace("\x00", "�")


def record(job):
    cfgkey, doc = job
    md = md_for(cfgkey)
    env = {}
    toks = md.parse(doc, env)
    norm = normalise(doc)
    lines = norm.split("\n")
    if norm.endswith("\n") or norm == "":
        lines = lines[:-1]
    ev = []
    cell = 0
    mapped = 0
    for t in toks:
        if t.type in ("th_open", "td_open"):
            cell = 1
        e = {"k": "t", "ty": C.ascii_safe(t.type), "n": t.nesting, "map": list(t.map) if t.map is not None else [],
             "cl": [], "cell": cell}
        if t.type == "inline" and t.map is not None and t.content != "":
            e["cl"] = [C.cps(x) for x in t.content.split("\n")]
        if t.map is not None:
            mapped += 1
        ev.append(e)
        if t.type in ("th_close", "td_close"):
            cell = 0
    for ref in env.get("references", {}).values():
        if isinstance(ref, dict) and "map" in ref:
            ev.append({"k": "env", "map": list(ref["map"])})
    for ref in env.get("duplicate_refs", []):
        if isinstance(ref, dict) and "map" in ref:
            ev.append({"k": "env", "map": list(ref["map"])})
    ev.append({"k": "end"})
    return {"lines": [C.cps(x) for x in lines], "ev": ev}, mapped


def configs():
    cs = [{"preset": "commonmark", "on": [], "off": [], "opts": []},
          {"preset": "js-default", "on": [], "off": [], "opts": []},
          {"preset": "commonmark", "on": ["table"], "off": ["code"], "opts": []}]
    for r in BLOCK_RULES:
        cs.append({"preset": "js-default", "on": [], "off": [r], "opts": []})
    cs.append({"preset": "commonmark", "on": [], "off": ["code", "lheading"], "opts": [["inline_definitions", "T"]]})
    cs.append({"preset": "js-default", "on": [], "off": ["list", "blockquote"], "opts": [["maxNesting", "2"]]})
    cs.append({"preset": "zero", "on": ["list", "table", "reference"], "off": [], "opts": []})
    return [gen.cfg_key(c) for c in cs]


def build_jobs(tier, rep):
    rnd = random.Random(C.SEED)
    l1 = gen.docs("L1", tier, rep)
    l0 = gen.docs("L0", tier, rep)
    cfgs = configs()
    q = tier == "quick"
    short = [d for d in l1 if d.count("\n") <= 2]
    jobs = []
    for k, d in enumerate(short):
        for ck in cfgs[:3]:
            jobs.append((ck, d))
        jobs.append((cfgs[3 + k % (len(cfgs) - 3)], d))
    rest = gen.sample([d for d in l1 if d.count("\n") > 2], 60000 if q else 10 ** 9, C.SEED)
    for k, d in enumerate(rest):
        jobs.append((cfgs[k % len(cfgs)], d))
    for k, d in enumerate(gen.sample(l0, 30000 if q else 10 ** 9, C.SEED + 1)):
        jobs.append((cfgs[k % 3], d))
    # line-ending re-encodings pin "line numbering of the normalised input"
    for k, d in enumerate(gen.sample(short, 15000 if q else 100000, C.SEED + 2)):
        enc = d.replace("\n", "\r\n") if k % 2 else d.replace("\n", "\r")
        jobs.append((cfgs[k % 3], enc))
    for k, d in enumerate(gen.sample(gen.l3_docs(), 50000 if q else 637602, C.SEED + 5, keep_short=800)):
        jobs.append((cfgs[k % len(cfgs)], d + ("\n" if k % 2 else "")))
    tw = gen.twins(gen.sample(l1, 25000 if q else 300000, C.SEED + 4, keep_short=2000), C.SEED, per_doc=2)
    for k, d in enumerate(tw):
        jobs.append((cfgs[k % len(cfgs)], d))
    if q and len(jobs) > 420000:
        jobs = gen.sample(jobs, 420000, C.SEED + 3)
    # where a container's map ends (empties inside it, blank lines after it), fence-like lines inside fences
    for k, d in enumerate(gen.container_tail_docs() + gen.sample(gen.fence_docs(), 4000 if q else 10 ** 9, C.SEED + 6)):
        jobs.append((cfgs[k % 3], d if k % 5 else d[:-1]))
    rep.cov["bounds"] = {"L1": len(l1), "L0": len(l0), "configs": len(cfgs), "unicode_twin_docs": len(tw), "executed": len(jobs)}
    rep.cov["exhaustive"] = False
    return jobs


def run(tier, rep):
    jobs = build_jobs(tier, rep)
    verdicts, st, counts, traces = C.run_sliced(record, jobs, "SourceMapTrace", trace_of=lambda r: r[0], keep=lambda r: r[1],
                                                shard=15000)
    res = [(None, c) for c in counts]
    rep.tlc_stats("SourceMapTrace", st, len(jobs))
    for job, (v, pos) in zip(jobs, verdicts):
        if v != "ok":
            rep.violation(f"{v}:{job[0]}:{json.dumps(job[1])}",
                          {"engine": "trace", "module": "SourceMapTrace", "clause": v, "event_index": pos - 2,
                           "input": {"config": json.loads(job[0]), "doc": job[1]}})
    rep.sample({"config": json.loads(jobs[11][0]), "doc": jobs[11][1], "events": len(traces[11]["ev"])})
    rep.cov["evaluations"] = len(jobs)
    rep.cov["distinct_nontrivial"] = len({j for j, r in zip(jobs, res) if r[1] >= 2})
    rep.cov["rule"] = ("case = (block-rule configuration, document); non-trivial = the parse has at least two mapped "
                       "block tokens; <=3-line documents run under three fixed configurations plus one rotating "
                       "single-rule-off configuration, longer ones under one configuration each")
    rep.assumptions += ["normalisation (CRLF/CR -> LF, NUL -> U+FFFD) of the reference line table is done by the harness",
                        "blank = only spaces and tabs (the block parser's notion)"]


def replay(case, rep):
    i = case["input"]
    t, _ = record((gen.cfg_key(i["config"]), i["doc"]))
    v, _ = C.validate_traces("SourceMapTrace", [t])
    if v[0][0] != "ok":
        rep.violation(case.get("key", "replay"), case)


def selftest():
    t, _ = record((configs()[0], "> a\n> b\n\nc\n"))
    v, _ = C.validate_traces("SourceMapTrace", [t])
    assert v[0][0] == "ok", v
    for e in t["ev"]:
        if e["k"] == "t" and e["ty"] == "paragraph_open" and e["map"] == [3, 4]:
            e["map"][0] = 2
    v, _ = C.validate_traces("SourceMapTrace", [t])
    assert v[0][0] == "starts_blank", v
    print("selftest C03 ok:", v[0])
    return 0
