"""C07 - top-level blocks are parsed independently: documents compose by concatenation.

Pairs (A, B) of DocGen line-shape documents; the real parser is run on A+blank, A+blank+"P", B and
A+blank+B; TLC validates ConcatLaw of DocAlgebraTrace.tla: side conditions (A closed - decided on
the implementation itself as the statement defines it -, B at column 0, no list+list / code+code
seam) and blocks(A+blank+B) = blocks(A+blank) ++ Shift(blocks(B)).  Children are not compared.
"""
from __future__ import annotations

import json
import random
import re

from .. import common as C
from .. import gen
from .. import algebra as A

PID = "C07"
CFGS = [gen.cfg_key(c) for c in (
    {"preset": "commonmark", "on": [], "off": [], "opts": []},
    {"preset": "js-default", "on": [], "off": [], "opts": []},
    {"preset": "commonmark", "on": ["table"], "off": ["code"], "opts": []},
    {"preset": "js-default", "on": [], "off": ["lheading", "html_block"], "opts": [["html", "T"]]},
)]


def law(job):
    a, b, cfgkey = job
    md = A.md_for(cfgkey)
    a1 = a + "\n"
    return {"op": "concat", "maxn": md.options["maxNesting"], "a": {}, "a0": A.parse(md, a, kids=False),
            "a1": A.parse(md, a1, kids=False), "ap": A.parse(md, a1 + "P\n", kids=False),
            "base": A.parse(md, b, kids=False), "der": A.parse(md, a1 + b, kids=False)}


def build_jobs(tier, rep):
    q = tier == "quick"
    l1 = [d + "\n" for d in gen.docs("L1", tier, rep, cfg="DocGen_L1_small.cfg")]
    short = [d for d in l1 if d.count("\n") <= 2]
    three = [d for d in l1 if d.count("\n") == 3]
    rnd = random.Random(C.SEED)
    jobs = []
    n = 30000 if q else 400000
    for k in range(n):
        a = rnd.choice(short if k % 3 else three)
        b = rnd.choice(short)
        jobs.append((a, b, CFGS[k % len(CFGS)]))
    # stratum 2: A rich in containers (state that could leak: list / quote context, indentation bookkeeping)
    cont = re.compile(r"(^|\n)[ \t]*([-*+>]|\d+[.)])")
    nested = [d for d in short if len(cont.findall(d)) >= 2 or re.search(r"(^|\n)\s*([-*+>]|\d+[.)])\s*([-*+>]|\d+[.)])", d)]
    for k in range(12000 if q else 150000):
        jobs.append((rnd.choice(nested), rnd.choice(short), CFGS[k % len(CFGS)]))
    # stratum 3: every two-line A over the container shapes x a fixed set of column-0 documents B
    alpha = gen.alphabet("L1")
    cshapes = [x for x in alpha if re.match(r"\s*([-*+>]|\d+[.)])", x)]
    bs = ["c\n\nd\n", "- x\n", "> y\n", "# h\n", "```\nf\n```\n", "1. o\n", "c\n", "***\n", "<div>\nz\n</div>\n", "[r]: /u\n", "a|b\n-|-\n", "2. p\n-\n"]
    k = 0
    for x in cshapes:
        for y in cshapes:
            for b in (bs if not q else bs[(k % 4)::4]):
                jobs.append((x + "\n" + y + "\n", b, CFGS[k % len(CFGS)]))
                k += 1
    # stratum 4: A defines a label, B begins with a line in definition syntax (same or another label, safe or
    # rejected destination): what B's first line is must not depend on A's definitions
    hasdef = [d for d in short if re.search(r"(^|\n)\[[aA]\]: ", d)]
    defb = [d for d in short if re.match(r"\[[aA]\]:", d)]
    for k in range(6000 if q else 80000):
        jobs.append((rnd.choice(hasdef), rnd.choice(defb), CFGS[k % len(CFGS)]))
    rep.cov["bounds"] = {"A_B_pool": len(short), "A_three_line_pool": len(three), "pairs_executed": len(jobs),
                         "pairs_possible": len(short) ** 2}
    rep.cov["exhaustive"] = False
    return jobs


def run(tier, rep):
    jobs = build_jobs(tier, rep)
    traces = C.pmap(law, jobs, chunk=200)
    verdicts, st = C.validate_traces("DocAlgebraTrace", traces, shard=2500, heap="10g")
    rep.tlc_stats("DocAlgebraTrace[concat]", st, len(traces))
    skips, held = {}, 0
    for job, (v, pos) in zip(jobs, verdicts):
        if v == "ok":
            held += 1
        elif v.startswith("skip:"):
            skips[v] = skips.get(v, 0) + 1
        elif v.startswith("harness:"):
            raise C.MachineryError(f"law trace rejected as malformed: {v} on {job!r}")
        else:
            rep.violation(f"concat:{v}:{job[2]}:{json.dumps(job[0])}:{json.dumps(job[1])}",
                          {"engine": "trace", "module": "DocAlgebraTrace", "clause": v,
                           "input": {"config": json.loads(job[2]), "A": job[0], "B": job[1]}})
    if held < 1000:
        raise C.MachineryError(f"only {held} law instances passed their guards")
    rep.sample({"A": jobs[2][0], "B": jobs[2][1], "config": json.loads(jobs[2][2])})
    rep.cov["evaluations"] = len(traces)
    rep.cov["distinct_nontrivial"] = held
    rep.cov["guard_skips"] = skips
    rep.cov["rule"] = ("case = (A, B, configuration); non-trivial = all side conditions hold (A closed, B at column 0, seam not "
                       "list+list / code+code) and the prediction was compared")


def replay(case, rep):
    i = case["input"]
    t = law((i["A"], i["B"], gen.cfg_key(i["config"])))
    v, _ = C.validate_traces("DocAlgebraTrace", [t])
    if not (v[0][0] == "ok" or v[0][0].startswith("skip:")):
        rep.violation(case.get("key", "replay"), case)


def selftest():
    t = law(("- a\n", "b\n", CFGS[0]))
    v, _ = C.validate_traces("DocAlgebraTrace", [t])
    assert v[0][0] == "ok", v
    t["der"]["toks"][-3]["map"] = [1, 2]
    v, _ = C.validate_traces("DocAlgebraTrace", [t])
    assert v[0][0] == "map", v
    print("selftest C07 ok:", v[0])
    return 0
