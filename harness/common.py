"""Harness core: repo loading, TLC runner, TLA+ value parser, evidence, findings, reporting.

Everything a check needs that is not specific to one property.  Verdicts are produced by TLC
(see DESIGN.md section 3.2): this module only moves data between the real code and TLC.
"""
from __future__ import annotations

import json
import os
import re
import shutil
import subprocess
import sys
import tempfile
import time
from dataclasses import dataclass, field

VERIF = os.path.dirname(os.path.dirname(os.path.abspath(__file__)))
REPO = os.environ.get("VERIF_REPO", "/repo")
SPEC = os.path.join(VERIF, "spec")
SEED = int(os.environ.get("VERIF_SEED", "0") or 0)
NPROC = min(16, os.cpu_count() or 1)
TLC_CP = "/opt/veriftools/tla/tla2tools.jar:/opt/veriftools/tla/CommunityModules-deps.jar"


class MachineryError(Exception):
    """Something in the harness (not the library) failed: exit code 2."""


# --------------------------------------------------------------------------------------------
# loading the implementation under test from the working tree
# --------------------------------------------------------------------------------------------
def load_repo():
    """Import markdown_it from REPO's working tree (never from a cached install)."""
    sys.dont_write_bytecode = True
    for k in [k for k in sys.modules if k == "markdown_it" or k.startswith("markdown_it.")]:
        del sys.modules[k]
    if REPO in sys.path:
        sys.path.remove(REPO)
    sys.path.insert(0, REPO)
    import markdown_it  # noqa

    got = os.path.dirname(os.path.abspath(markdown_it.__file__))
    want = os.path.join(os.path.abspath(REPO), "markdown_it")
    if os.path.realpath(got) != os.path.realpath(want):
        raise MachineryError(f"markdown_it imported from {got}, expected {want}")
    return markdown_it


# --------------------------------------------------------------------------------------------
# TLA+ value parser (TLC's pretty-printed values: error traces, -simulate files, PrintT)
# --------------------------------------------------------------------------------------------
class _P:
    def __init__(self, s):
        self.s, self.i = s, 0

    def ws(self):
        while self.i < len(self.s) and self.s[self.i] in " \t\r\n":
            self.i += 1

    def peek(self, k=1):
        self.ws()
        return self.s[self.i : self.i + k]

    def eat(self, t):
        self.ws()
        if not self.s.startswith(t, self.i):
            raise ValueError(f"expected {t!r} at {self.i}: {self.s[self.i:self.i+40]!r}")
        self.i += len(t)

    def value(self):
        v = self.atom()
        # function constructors  a :> b @@ c :> d
        self.ws()
        if self.s.startswith(":>", self.i):
            d = {}
            k = v
            while True:
                self.eat(":>")
                d[_key(k)] = self.atom()
                self.ws()
                if self.s.startswith("@@", self.i):
                    self.eat("@@")
                    k = self.atom()
                else:
                    break
            return d
        return v

    def atom(self):
        self.ws()
        s, i = self.s, self.i
        if s.startswith("<<", i):
            self.eat("<<")
            out = []
            if self.peek(2) == ">>":
                self.eat(">>")
                return out
            while True:
                out.append(self.value())
                if self.peek(1) == ",":
                    self.eat(",")
                else:
                    break
            self.eat(">>")
            return out
        if s.startswith("{", i):
            self.eat("{")
            out = []
            if self.peek(1) == "}":
                self.eat("}")
                return frozenset()
            while True:
                out.append(self.value())
                if self.peek(1) == ",":
                    self.eat(",")
                else:
                    break
            self.eat("}")
            return frozenset(_key(x) for x in out)
        if s.startswith("[", i):
            self.eat("[")
            d = {}
            if self.peek(1) == "]":
                self.eat("]")
                return d
            while True:
                self.ws()
                m = re.compile(r"[A-Za-z_][A-Za-z0-9_]*").match(self.s, self.i)
                k = m.group(0)
                self.i = m.end()
                self.eat("|->")
                d[k] = self.value()
                if self.peek(1) == ",":
                    self.eat(",")
                else:
                    break
            self.eat("]")
            return d
        if s.startswith("(", i):
            self.eat("(")
            v = self.value()
            self.eat(")")
            return v
        if s.startswith('"', i):
            j = i + 1
            buf = []
            while s[j] != '"':
                if s[j] == "\\":
                    j += 1
                    buf.append({"n": "\n", "t": "\t", "r": "\r", "f": "\f"}.get(s[j], s[j]))
                else:
                    buf.append(s[j])
                j += 1
            self.i = j + 1
            return "".join(buf)
        m = re.compile(r"-?\d+").match(s, i)
        if m:
            self.i = m.end()
            return int(m.group(0))
        m = re.compile(r"[A-Za-z_][A-Za-z0-9_]*").match(s, i)
        if m:
            self.i = m.end()
            w = m.group(0)
            return {"TRUE": True, "FALSE": False}.get(w, w)
        raise ValueError(f"cannot parse TLA+ value at {i}: {s[i:i+40]!r}")


def _key(v):
    if isinstance(v, list):
        return tuple(_key(x) for x in v)
    if isinstance(v, dict):
        return tuple(sorted((k, _key(x)) for k, x in v.items()))
    return v


def parse_tla(s: str):
    p = _P(s)
    v = p.value()
    p.ws()
    if p.i != len(p.s):
        raise ValueError(f"trailing input in TLA+ value: {s[p.i:p.i+40]!r}")
    return v


def parse_state(text: str) -> dict:
    """Parse '/\\ x = v\\n/\\ y = w' (one TLC state) into a dict."""
    out = {}
    parts = re.split(r"(?m)^/\\ ", text.strip())
    for part in parts:
        part = part.strip()
        if not part:
            continue
        m = re.match(r"([A-Za-z_][A-Za-z0-9_]*) = ", part)
        if not m:
            continue
        out[m.group(1)] = parse_tla(part[m.end() :])
    return out


# --------------------------------------------------------------------------------------------
# TLC runner
# --------------------------------------------------------------------------------------------
@dataclass
class TLCResult:
    ok: bool
    generated: int = 0
    distinct: int = 0
    depth: int = 0
    violated: str | None = None  # invariant / property name, 'deadlock', 'assert', ...
    trace: list = field(default_factory=list)  # [(action_label, state_dict)]
    out: str = ""
    wall: float = 0.0
    coverage: dict = field(default_factory=dict)  # action name -> (distinct, total)
    cmd: str = ""

    def prints(self, tag: str):
        """Values printed by PrintT(<<"tag", ...>>) / ToJson lines prefixed by tag."""
        return [l[len(tag) :] for l in self.out.splitlines() if l.startswith(tag)]


_RE_STATS = re.compile(r"(\d+) states generated, (\d+) distinct states found")
_RE_DEPTH = re.compile(r"The depth of the complete state graph search is (\d+)")
_RE_COV = re.compile(r"^<(\w+) line \d+, col \d+ to line \d+, col \d+ of module (\w+)>: (\d+):(\d+)", re.M)


def run_tlc(
    module: str,
    cfg: str | None = None,
    *,
    env: dict | None = None,
    workers: int | str = NPROC,
    simulate: str | None = None,
    depth: int | None = None,
    seed: int | None = None,
    coverage: bool = False,
    deadlock: bool = True,
    extra: list | None = None,
    timeout: int = 3600,
    heap: str = "8g",
    dfs: bool = False,
    specdir: str | None = None,
    allow_violation: bool = True,
) -> TLCResult:
    """Run TLC on spec/<module>.tla with spec/<cfg>; metadir is private and removed."""
    specdir = specdir or SPEC
    cfg = cfg or module + ".cfg"
    meta = tempfile.mkdtemp(prefix="verif-tlc-")
    # TLC leaves an empty "tlc-<n>" directory in java.io.tmpdir per run: put it inside the private metadir
    jopts = [f"-Xmx{heap}", "-Xss64m", "-XX:+UseParallelGC", f"-Djava.io.tmpdir={meta}"]
    if dfs:
        jopts.append("-Dtlc2.tool.queue.IStateQueue=StateDeque")
    cmd = ["java", *jopts, "-cp", TLC_CP, "tlc2.TLC", "-metadir", meta, "-noGenerateSpecTE",
           "-workers", str(workers), "-config", cfg]
    if not deadlock:
        cmd.append("-deadlock")  # TLC: -deadlock means "do NOT check for deadlock"
    if coverage:
        cmd += ["-coverage", "1"]
    if simulate is not None:
        cmd += ["-simulate", simulate] if simulate else ["-simulate"]
    if depth is not None:
        cmd += ["-depth", str(depth)]
    if seed is not None:
        cmd += ["-seed", str(seed)]
    cmd += list(extra or [])
    cmd.append(module)
    e = dict(os.environ)
    e.pop("JAVA_TOOL_OPTIONS", None)
    if env:
        e.update({k: str(v) for k, v in env.items()})
    t0 = time.time()
    try:
        p = subprocess.run(cmd, cwd=specdir, env=e, capture_output=True, text=True, timeout=timeout)
    except subprocess.TimeoutExpired as ex:
        raise MachineryError(f"TLC timed out after {timeout}s: {' '.join(cmd)}") from ex
    finally:
        shutil.rmtree(meta, ignore_errors=True)
    out = p.stdout + ("\n" + p.stderr if p.stderr.strip() else "")
    r = TLCResult(ok=False, out=out, wall=time.time() - t0, cmd=" ".join(cmd))
    for m in _RE_STATS.finditer(out):
        r.generated, r.distinct = int(m.group(1)), int(m.group(2))
    m = _RE_DEPTH.search(out)
    if m:
        r.depth = int(m.group(1))
    for m in _RE_COV.finditer(out):
        r.coverage[m.group(1)] = (int(m.group(3)), int(m.group(4)))
    if "Model checking completed. No error has been found." in out or (
        simulate is not None and "Error:" not in out and p.returncode == 0
    ):
        r.ok = True
        return r
    m = re.search(r"Error: Invariant (\w+) is violated", out)
    if m:
        r.violated = m.group(1)
    elif re.search(r"Error: Action property (\w+) is violated", out):
        r.violated = re.search(r"Error: Action property (\w+) is violated", out).group(1)
    elif "Temporal properties were violated" in out:
        r.violated = "temporal"
    elif "Deadlock reached" in out:
        r.violated = "deadlock"
    elif "The first argument of Assert evaluated to FALSE" in out or "Assertion failed" in out:
        r.violated = "assert"
    elif "is violated" in out:
        mm = re.search(r"Error: (?:Property|Postcondition|Invariant) ?(\w*) ?is violated", out)
        r.violated = (mm.group(1) if mm and mm.group(1) else "postcondition")
    if r.violated is None:
        raise MachineryError("TLC failed without a property violation:\n" + out[-4000:])
    if not allow_violation:
        raise MachineryError(f"TLC reported {r.violated} where none is acceptable:\n" + out[-4000:])
    # error trace
    for m in re.finditer(r"(?ms)^State (\d+): <([^>]*)>\n(.*?)(?=^\s*$)", out):
        try:
            r.trace.append((m.group(2), parse_state(m.group(3))))
        except ValueError:
            r.trace.append((m.group(2), {"_raw": m.group(3)}))
    return r


def sany(module: str, specdir: str | None = None) -> None:
    p = subprocess.run(["java", "-cp", TLC_CP, "tla2sany.SANY", module + ".tla"], cwd=specdir or SPEC,
                       capture_output=True, text=True)
    if p.returncode != 0 or "Semantic errors" in p.stdout or "***Parse Error***" in p.stdout:
        raise MachineryError(f"SANY rejected {module}:\n{p.stdout[-3000:]}")


# --------------------------------------------------------------------------------------------
# batch trace validation (engine E3)
# --------------------------------------------------------------------------------------------
_RE_VERDICT = re.compile(r'<<"V", (\d+), "([^"]*)", (-?\d+)>>')


def ascii_safe(s: str) -> str:
    """Injective ASCII escaping for strings TLC only compares for equality."""
    out = []
    for ch in s:
        o = ord(ch)
        if 32 <= o < 127 and ch not in "\\{":
            out.append(ch)
        else:
            out.append("\\u{%x}" % o)
    return "".join(out)


def cps(s: str) -> list:
    return [ord(c) for c in s]


def validate_traces(module: str, traces: list, *, cfg: str | None = None, header: dict | None = None,
                    shard: int = 4000, workers: int | None = None, env: dict | None = None,
                    dfs: bool = False, heap: str = "6g", existential: bool = False):
    """Validate recorded traces with TLC against spec/<module>.tla.

    The trace spec must read IOEnv.TRACE_FILE = {"meta":..., "traces":[...]} and print exactly one
    <<"V", tid, verdict, position>> per trace (deterministic acceptors), or any number of them
    with at least one "ok" for an accepted trace (existential=True: nondeterministic acceptors).
    Returns (verdicts: list[(verdict, pos)] aligned with traces, stats dict).
    Shards run in parallel (each TLC gets a share of the cores).
    """
    import concurrent.futures as cf

    if not traces:
        raise MachineryError(f"{module}: empty trace batch")
    shards = [traces[i : i + shard] for i in range(0, len(traces), shard)]
    par = min(len(shards), 4)
    try:    # as many TLC processes side by side as their heaps fit into the memory that is free right now
        avail = next(int(line.split()[1]) * 1024 for line in open("/proc/meminfo") if line.startswith("MemAvailable"))
        hb = int(heap[:-1]) << (30 if heap.endswith("g") else 20)
        par = max(1, min(par, int(0.7 * avail / hb)))
    except Exception:
        pass
    w = workers or max(1, NPROC // par)
    tmp = tempfile.mkdtemp(prefix="verif-tr-")
    stats = {"generated": 0, "distinct": 0, "shards": len(shards), "tlc_wall": 0.0}
    verdicts: list = [None] * len(traces)

    def one(k):
        path = os.path.join(tmp, f"shard{k}.json")
        with open(path, "w") as f:
            json.dump({"meta": header or {"_": 0}, "traces": shards[k]}, f, separators=(",", ":"))
        ev = {"TRACE_FILE": path}
        ev.update(env or {})
        r = run_tlc(module, cfg, env=ev, workers=w, deadlock=False, dfs=dfs, heap=heap,
                    allow_violation=False)
        os.unlink(path)
        return k, r

    try:
        with cf.ThreadPoolExecutor(par) as ex:
            for k, r in ex.map(one, range(len(shards))):
                stats["generated"] += r.generated
                stats["distinct"] += r.distinct
                stats["tlc_wall"] += r.wall
                seen = {}
                for m in _RE_VERDICT.finditer(r.out):
                    tid, v, pos = int(m.group(1)), m.group(2), int(m.group(3))
                    if existential:
                        old = seen.get(tid)
                        if old is None or (old[0] != "ok" and (v == "ok" or pos > old[1])):
                            seen[tid] = (v, pos)
                    else:
                        if tid in seen:
                            raise MachineryError(f"{module}: two verdicts for trace {tid} in shard {k}")
                        seen[tid] = (v, pos)
                if len(seen) != len(shards[k]):
                    raise MachineryError(
                        f"{module}: shard {k}: {len(seen)} verdicts for {len(shards[k])} traces\n" + r.out[-3000:])
                for tid, vp in seen.items():
                    verdicts[k * shard + tid - 1] = vp
    finally:
        shutil.rmtree(tmp, ignore_errors=True)
    return verdicts, stats


def run_sliced(fn, jobs, module, *, slice_size=400000, chunk=400, trace_of=None, keep=None, **vkw):
    """pmap + validate_traces in slices (bounded memory for the thorough tiers).
    trace_of(result) -> trace; keep(result) -> small per-job value kept for the caller.
    Returns (verdicts, stats, kept, first_traces) aligned with jobs."""
    trace_of = trace_of or (lambda r: r)
    verdicts, kept, first = [], [], []
    acc = {"generated": 0, "distinct": 0, "shards": 0, "tlc_wall": 0.0}
    for lo in range(0, len(jobs), slice_size):
        res = pmap(fn, jobs[lo: lo + slice_size], chunk=chunk)
        traces = [trace_of(r) for r in res]
        if keep is not None:
            kept += [keep(r) for r in res]
        del res
        if not first:
            first = traces[:50]
        vs, st = validate_traces(module, traces, **vkw)
        verdicts += vs
        for k in acc:
            acc[k] += st[k]
        del traces
    return verdicts, acc, kept, first


# --------------------------------------------------------------------------------------------
# running the implementation in parallel
# --------------------------------------------------------------------------------------------
class _CallTimeout(BaseException):
    pass


def _alarm(signum, frame):
    raise _CallTimeout()


def _guarded(fn, limit, x):
    """One library-driving call under a wall-clock limit: a call that does not come back is reported as a
    machinery failure of THIS check (non-termination itself is C01's subject and is judged there)."""
    import signal

    signal.signal(signal.SIGALRM, _alarm)
    signal.setitimer(signal.ITIMER_REAL, limit)
    try:
        return fn(x)
    except _CallTimeout:
        raise MachineryError(f"{fn.__module__}.{fn.__name__} did not return within {limit}s on {str(x)[:300]!r} "
                             f"(a hang of the library is decided by ./check C01)") from None
    finally:
        signal.setitimer(signal.ITIMER_REAL, 0)


def pmap(fn, items, procs: int = NPROC, chunk: int = 64, limit: float = 120.0):
    """Map fn over items in forked worker processes (fn must be a module-level function)."""
    import functools
    import multiprocessing as mp

    items = list(items)
    g = functools.partial(_guarded, fn, limit) if limit else fn
    if len(items) < 2 * chunk or procs <= 1:
        return [g(x) for x in items]
    ctx = mp.get_context("fork")
    procs = _procs_for_memory(procs)
    import gc
    gc.freeze()          # forked workers share the parent's objects: keep the collector from touching (= copying) them
    try:
        with ctx.Pool(procs) as pool:
            return pool.map(g, items, chunksize=chunk)
    finally:
        gc.unfreeze()


def _procs_for_memory(procs):
    """Fewer workers when the parent is large: every forked worker may end up with its own copy of the parent's heap
    (reference counts are written on access), and the thorough tiers hold millions of jobs."""
    try:
        rss = int(open("/proc/self/statm").read().split()[1]) * os.sysconf("SC_PAGE_SIZE")
        avail = next(int(line.split()[1]) * 1024 for line in open("/proc/meminfo") if line.startswith("MemAvailable"))
    except Exception:
        return procs
    return max(2, min(procs, int(0.5 * avail / max(rss, 256 << 20))))


# --------------------------------------------------------------------------------------------
# findings, reporting, evidence
# --------------------------------------------------------------------------------------------
def load_findings():
    p = os.path.join(VERIF, "known_findings.json")
    if not os.path.exists(p):
        return {"open": [], "fixed": []}
    return json.load(open(p))


class Report:
    """Collects violations of one property during one run and renders the exit protocol."""

    def __init__(self, pid: str, tier: str):
        self.pid, self.tier = pid, tier
        self.t0 = time.time()
        self.violations = []  # (key, replay dict)
        self.cov = {"states": 0, "transitions": 0, "traces_validated_against_impl": 0, "samples": [],
                    "evaluations": 0, "distinct_nontrivial": 0, "rule": "", "tlc_runs": []}
        self.assumptions = []

    def tlc(self, name: str, r: TLCResult):
        self.cov["states"] += r.distinct
        self.cov["transitions"] += r.generated
        self.cov["tlc_runs"].append({"spec": name, "distinct": r.distinct, "generated": r.generated,
                                     "depth": r.depth, "wall_s": round(r.wall, 2),
                                     **({"coverage": {k: v[1] for k, v in r.coverage.items()}} if r.coverage else {})})

    def tlc_stats(self, name: str, st: dict, n: int):
        self.cov["states"] += st["distinct"]
        self.cov["transitions"] += st["generated"]
        self.cov["traces_validated_against_impl"] += n
        self.cov["tlc_runs"].append({"spec": name, "distinct": st["distinct"], "generated": st["generated"],
                                     "traces": n, "shards": st["shards"], "wall_s": round(st["tlc_wall"], 2)})

    def sample(self, x, cap: int = 6):
        if len(self.cov["samples"]) < cap:
            self.cov["samples"].append(x)

    def violation(self, key: str, replay: dict):
        self.violations.append((key, replay))

    def finish(self, level: str = "model_checking") -> int:
        findings = load_findings()
        open_keys = {f["key"]: f for f in findings.get("open", []) if f["property"] == self.pid}
        new, known = [], {}
        for key, rep in self.violations:
            hit = next((k for k in open_keys if _match_key(k, key)), None)
            if hit is not None:
                known.setdefault(hit, []).append(key)
            else:
                new.append((key, rep))
        for k, keys in known.items():
            print(f"KNOWN-FINDING: property={self.pid} {open_keys[k]['what']} [{k}; {len(keys)} case(s)]")
        scratch = bool(os.environ.get("VERIF_NO_EVIDENCE"))
        rdir = tempfile.mkdtemp(prefix="verif-replays-") if scratch else os.path.join(VERIF, "replays")
        os.makedirs(rdir, exist_ok=True)
        seen = set()
        for n, (key, rep) in enumerate(new):
            if key in seen:
                continue
            seen.add(key)
            if len(seen) > 5:
                print(f"  ... and more ({len(new)} violating cases in total); see evidence")
                break
            path = os.path.join(rdir, f"{self.pid}-{len(seen)}.json")
            rep = dict(rep)
            rep.update({"property": self.pid, "key": key})
            with open(path, "w") as f:
                json.dump(rep, f, indent=1, default=str)
            print(f"VIOLATION property={self.pid} replay={path}")
            print(f"  key: {key[:300]}")
        cov = self.cov
        if not cov["rule"]:
            cov["rule"] = "see DESIGN.md"
        ev = {"property_id": self.pid, "tier": self.tier, "seed": SEED, "level": level, "coverage": cov,
              "assumptions": self.assumptions, "wall_s": round(time.time() - self.t0, 2),
              "violations": len(new), "known_findings_hit": sorted(known)}
        if not scratch:  # detection self-tests on scratch copies never rewrite the evidence
            os.makedirs(os.path.join(VERIF, "evidence"), exist_ok=True)
            with open(os.path.join(VERIF, "evidence", f"{self.pid}.json"), "w") as f:
                json.dump(ev, f, indent=1, default=str)
        print(f"{self.pid} [{self.tier}] states={cov['states']} transitions={cov['transitions']} "
              f"impl_traces={cov['traces_validated_against_impl']} evaluations={cov['evaluations']} "
              f"violations={len(new)} known={len(known)} wall={ev['wall_s']}s")
        return 1 if new else 0


def _match_key(pattern: str, key: str) -> bool:
    """An open finding's key is matched exactly or, when it ends with '*', as a prefix."""
    if pattern.endswith("*"):
        return key.startswith(pattern[:-1])
    return pattern == key
