"""Shared machinery for the document-algebra laws (C06, C07, C16, C17, C18): projection of a real
parse to the flat records DocAlgebraTrace.tla compares, and textual application of operations."""
from __future__ import annotations

import json

from . import common as C
from . import gen

_MD = {}


def md_for(cfgkey):
    if cfgkey not in _MD:
        _MD[cfgkey] = gen.make_md(json.loads(cfgkey))
    return _MD[cfgkey]


def jstr(x):
    return C.ascii_safe(json.dumps(x, sort_keys=True, default=str, separators=(",", ":")))


def lstrip_lines(s):
    return "\n".join(x.lstrip(" \t") for x in s.split("\n"))


import re as _re

_WS = _re.compile(r"[ \t]+")


def _kidsw(children):
    """children with white-space runs inside code spans collapsed (tab law: a code span continued
    on the next line may keep source indentation)"""
    out = []
    for c in children:
        d = c.as_dict()
        if c.type in ("code_inline", "html_inline"):
            d["content"] = _WS.sub(" ", d["content"])
        if c.children:
            d["children"] = _kidsw(c.children)
        out.append(d)
    return out


def _ctl(tokens):
    n = 0
    for t in tokens:
        n += t.content.count("\r") + t.content.count("\x00")
        if t.children:
            n += _ctl(t.children)
    return n


def tok(t, kids=True, kidsw=False):
    d = _tok(t, kids)
    if kidsw:
        d["kidsw"] = jstr(_kidsw(t.children)) if t.children is not None else "null"
    return d


def _tok(t, kids=True):
    return {"ty": C.ascii_safe(t.type), "tag": C.ascii_safe(t.tag), "n": t.nesting, "lv": t.level,
            "map": list(t.map) if t.map is not None else [], "mk": C.ascii_safe(t.markup), "info": C.ascii_safe(t.info),
            "c": C.ascii_safe(t.content), "cl": C.ascii_safe(lstrip_lines(t.content)), "hid": 1 if t.hidden else 0,
            "at": jstr(t.attrs), "me": jstr(t.meta),
            "kids": (jstr([c.as_dict() for c in t.children]) if t.children is not None else "null") if kids else "",
            "blk": 1 if t.block else 0}


def lines_of(doc):
    ls = doc.split("\n")
    if doc.endswith("\n") or doc == "":
        ls = ls[:-1]
    return [C.cps(x) for x in ls]


def refs_of(env):
    out = []
    for k in sorted(env.get("references", {})):
        r = env["references"][k]
        out.append({"label": C.ascii_safe(k), "href": C.ascii_safe(r.get("href", "")), "title": C.ascii_safe(r.get("title", "")),
                    "map": list(r.get("map", [-1, -1]))})
    dups = [{"label": C.ascii_safe(r.get("label", "")), "href": C.ascii_safe(r.get("href", "")),
             "title": C.ascii_safe(r.get("title", "")), "map": list(r.get("map", [-1, -1]))}
            for r in env.get("duplicate_refs", [])]
    return out, dups


def parse(md, doc, kids=True, env=None, html=False, raw=False, kidsw=False):
    env = {} if env is None else env
    toks = md.parse(doc, env)
    refs, dups = refs_of(env)
    p = {"lines": lines_of(doc) if not raw else [], "toks": [tok(t, kids, kidsw) for t in toks], "refs": refs, "dups": dups}
    if raw:
        p["raw"] = C.cps(doc)
        p["ctl"] = _ctl(toks)
        # tabs that remain inside a content line after its leading blanks (such a tab is content, not structure)
        p["tabc"] = sum(lstrip_lines(t.content).count("\t") for t in toks)
    if html:
        p["html"] = C.ascii_safe(md.renderer.render(toks, md.options, env))
    return p


def quote(doc):
    return "".join("> " + x + "\n" for x in doc.split("\n")[:-1])


def listwrap(doc, marker, w):
    ls = doc.split("\n")[:-1]
    W = len(marker) + w
    return "".join((marker + " " * w + x if i == 0 else " " * W + x) + "\n" for i, x in enumerate(ls))


def list_args(op):
    m = op["marker"]
    ordered = op["ordered"]
    return {"marker": C.cps(m), "w": op["w"], "ordered": ordered,
            "mk": m[-1] if ordered else m,
            "info": m[:-1] if ordered else "",
            "at": jstr({"start": op["num"]}) if ordered and op["num"] != 1 else jstr({})}


def opseqs(tier, rep):
    r = C.run_tlc("MCDocAlgebra", f"DocAlgebra_{tier}.cfg", allow_violation=False, workers=8, timeout=900)
    rep.tlc(f"DocAlgebra[{tier}]", r)
    seen = set()
    out = []
    for line in r.out.splitlines():
        if line.startswith('"['):
            if line in seen:
                continue
            seen.add(line)
            out.append(json.loads(json.loads(line)))
    return [o for o in out if o]
