"""Deterministic scheduler for real threads (C13).

Exactly one library thread is runnable at any time.  A schedule is a list of segments
(thread_index, stop) where stop is an absolute per-thread event count at which the thread is parked
(None = run to completion).  Events are `line` events of frames whose code lives under
<repo>/markdown_it, plus `opcode` events inside ruler.py ("pre-emption possible between any two
bytecodes of the library" is explored at bytecode granularity where the shared state lives and at
line granularity elsewhere).  A per-thread step budget turns non-termination into an observation.

Observations (R1): the return value of every Ruler.getRules call (the property speaks about rule
chains being observed), and the result of each API call.
"""
from __future__ import annotations

import os
import sys
import threading

from . import common as C


SHARED_MODULES = {"main.py", "renderer.py", "parser_core.py", "parser_block.py", "parser_inline.py", "utils.py", "token.py"}


class Budget(BaseException):
    pass


_WARM = False


def warm():
    """CPython 3.12 installs per-code opcode instrumentation lazily: the first traced execution of
    ruler.py after f_trace_opcodes is set may not deliver opcode events.  Run one throw-away traced
    call per process so that event counts are reproducible."""
    global _WARM
    if _WARM:
        return
    from markdown_it import MarkdownIt

    for _ in range(2):
        md = MarkdownIt("js-default")
        r = Run(md, [("render", "w *x*\n> y\n", lambda x: x)], {})
        r.execute([])
    _WARM = True


class Run:
    def __init__(self, md, calls, fnid, budget=200000, opcodes=True):
        self.md, self.calls, self.fnid = md, calls, fnid
        self.lib = os.path.join(os.path.realpath(C.REPO), "markdown_it") + os.sep
        self.budget, self.opcodes = budget, opcodes
        n = len(calls)
        self.count = [0] * n
        self.limit = [None] * n
        self.go = [threading.Semaphore(0) for _ in range(n)]
        self.ctrl = threading.Semaphore(0)
        self.finished = [False] * n
        self.events = []          # global order (only one thread runs at a time)
        self.ruler_events = [0] * n   # events inside ruler.py per thread
        self.where = [[] for _ in range(n)]  # (count) -> in_ruler flag, for planning
        # first event count of every distinct line of the modules whose objects are shared by all calls on an
        # instance (the facade, the renderer, the three parsers, the options mapping): planning of line pre-emptions
        self.shared_lines = [dict() for _ in range(n)]
        self.all_lines = [dict() for _ in range(n)]   # every distinct library line (module-level state can live anywhere)
        self.rulers = {id(md.core.ruler): "core", id(md.block.ruler): "block",
                       id(md.inline.ruler): "inline", id(md.inline.ruler2): "inline2"}

    def _tracer(self, t):
        lib = self.lib
        run = self

        def local(frame, event, arg):
            if event == "line" or event == "opcode":
                code = frame.f_code
                inr = code.co_filename.endswith("ruler.py")
                run.count[t] += 1
                c = run.count[t]
                if inr:
                    run.ruler_events[t] += 1
                    run.where[t].append(c)
                elif event == "line":
                    base = os.path.basename(code.co_filename)
                    if base in SHARED_MODULES:
                        run.shared_lines[t].setdefault((base, frame.f_lineno), c)
                    run.all_lines[t].setdefault((code.co_filename, frame.f_lineno), c)
                if c > run.budget:
                    raise Budget()
                if run.limit[t] is not None and c >= run.limit[t]:
                    run.limit[t] = None
                    run.ctrl.release()
                    run.go[t].acquire()
            elif event == "return":
                code = frame.f_code
                if code.co_name == "getRules" and code.co_filename.endswith("ruler.py") and isinstance(arg, list):
                    slf = frame.f_locals.get("self")
                    run.events.append({"ev": "getrules", "t": t + 1, "r": run.rulers.get(id(slf), "other"),
                                       "c": frame.f_locals.get("chainName", "?"),
                                       "fns": [run.fnid.get(id(f), 0) for f in arg]})
            return local

        def glob(frame, event, arg):
            fn = frame.f_code.co_filename
            if not fn.startswith(lib):
                return None
            if run.opcodes and fn.endswith("ruler.py"):
                frame.f_trace_opcodes = True
            return local

        return glob

    def _body(self, t):
        api, doc, digest = self.calls[t]
        self.go[t].acquire()
        sys.settrace(self._tracer(t))
        try:
            res = getattr(self.md, api)(doc, {})
            sys.settrace(None)
            self.events.append({"ev": "ret", "t": t + 1, "res": digest(res)})
        except Budget:
            sys.settrace(None)
            self.events.append({"ev": "budget", "t": t + 1})
        except BaseException as ex:  # noqa
            sys.settrace(None)
            self.events.append({"ev": "exc", "t": t + 1, "res": type(ex).__name__})
        finally:
            sys.settrace(None)
            self.finished[t] = True
            self.ctrl.release()

    def execute(self, schedule):
        n = len(self.calls)
        ths = [threading.Thread(target=self._body, args=(t,), daemon=True) for t in range(n)]
        for th in ths:
            th.start()
        plan = list(schedule) + [(t, None) for t in range(n)]
        for t, stop in plan:
            if self.finished[t]:
                continue
            self.limit[t] = stop if (stop is None or stop > self.count[t]) else self.count[t] + 1
            self.go[t].release()
            if not self.ctrl.acquire(timeout=120):
                raise C.MachineryError("scheduler: thread made no progress for 120 s (machinery guard)")
        for th in ths:
            th.join(timeout=10)
        return self.events
