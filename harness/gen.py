"""Inputs from the generator specifications (DocGen.tla, ConfigGen.tla) and construction of real
MarkdownIt instances from generated configurations."""
from __future__ import annotations

import json
import random
import re

from . import common as C

_PH = re.compile(r"\{u\+([0-9a-fA-F]{4,6})\}")


def expand(s: str) -> str:
    return _PH.sub(lambda m: chr(int(m.group(1), 16)), s)


_ALPHA = {}


def alphabet(name):
    """The alphabet sequence `name` of Alphabets.tla (evaluated by TLC, one source of truth)."""
    if not _ALPHA:
        r = C.run_tlc("AlphaConst", "AlphaConst.cfg", workers=1, allow_violation=False, timeout=120)
        line = [l for l in r.out.splitlines() if l.startswith('"{')][0]
        d = json.loads(json.loads(line))
        for k, v in d.items():
            _ALPHA[k] = [([expand(y) for y in x] if isinstance(x, list) else (expand(x) if isinstance(x, str) else x)) for x in v]
    return _ALPHA[name]


def docs(level, tier, rep=None, cfg=None, wrapname="Wrap2"):
    """All documents of DocGen_<level>_<tier>.cfg as strings (L1: lines joined by newline)."""
    cfg = cfg or f"DocGen_{level}_{tier}.cfg"
    r = C.run_tlc("MCDocGen", cfg, allow_violation=False, heap="8g", timeout=1800)
    if rep is not None:
        rep.tlc(f"DocGen[{cfg}]", r)
    alpha = alphabet(level)
    wrap = alphabet(wrapname)
    sep = "\n" if level in ("L1", "L3") else ""
    out = []
    for line in r.out.splitlines():
        if line.startswith('"{'):
            rec = json.loads(json.loads(line))
            s = sep.join(alpha[i - 1] for i in rec["d"])
            for w in reversed(rec["w"]):          # innermost wrapper is the last index
                s = s.join(wrap[w - 1])            # <<prefix, suffix>> or <<a, b, c>>: content placed in every gap
            out.append(s)
    if len(out) != r.distinct:
        raise C.MachineryError(f"DocGen {cfg}: {len(out)} documents exported for {r.distinct} states")
    out.sort()
    return out


def twins(docs, seed=0, per_doc=2):
    """Unicode-twin re-spellings (Alphabets!Twins): for each document and each character class that occurs in it,
    every member of the class is replaced by one twin of the class (the twin rotates with the document index);
    at most `per_doc` classes per document, chosen by rotation. Deterministic."""
    rows = [(set(r[0]), r[1:]) for r in alphabet("Twins")]
    out = []
    for k, d in enumerate(docs):
        present = [i for i, (members, _) in enumerate(rows) if members & set(d)]
        if not present:
            continue
        for j in range(min(per_doc, len(present))):
            members, tw = rows[present[(k + seed + j * 7) % len(present)]]
            t = tw[(k // 3 + j + seed) % len(tw)]
            out.append("".join(t if ch in members else ch for ch in d))
    return out


def emphasis_sentences(rep=None):
    """All documents of MCEmphGen (delimiter runs alternating with word segments), as strings."""
    r = C.run_tlc("MCEmphGen", "EmphGen.cfg", allow_violation=False, timeout=900)
    if rep is not None:
        rep.tlc("EmphGen[3 and 4 delimiter runs x spacing]", r)
    out = set()
    for line in r.out.splitlines():
        if line.startswith('"{'):
            out.add("".join(json.loads(json.loads(line))["parts"]))
    if len(out) < 30000:
        raise C.MachineryError(f"EmphGen exported only {len(out)} sentences")
    return sorted(out)


def l3_docs():
    """One- and two-line documents over the product line shapes L3 (Alphabets.tla: container prefix x leaf). The
    shapes come from the specification; the pairs are enumerated here (TLC needs minutes to print 640 k strings)."""
    shapes = alphabet("L3")
    return list(shapes) + [a + "\n" + b for a in shapes for b in shapes]


def container_tail_docs():
    """Container, k lines empty inside it, m blank lines outside, a following block (Alphabets.tla: TailHeads x
    TailEmpties^k x blank^m x TailTails, k <= 3, m <= 2)."""
    heads, emps, tails = alphabet("TailHeads"), alphabet("TailEmpties"), alphabet("TailTails")
    out = []
    for h in heads:
        for e in emps:
            for k in range(0, 4):
                for m in range(0, 3):
                    for t in tails:
                        ls = h.split("\n") + [e] * k + [""] * m + ([t] if t else [])
                        out.append("\n".join(ls) + "\n")
                        if k >= 2:     # the empties need not be spelled alike
                            ls2 = h.split("\n") + [e] + [emps[0]] * (k - 1) + [""] * m + ([t] if t else [])
                            out.append("\n".join(ls2) + "\n")
    return sorted(set(out))


def fence_docs():
    """Fenced blocks with fence-like lines in the body (Alphabets.tla: FenceOpen x FenceBody^(1..2) x closer)."""
    ops, body = alphabet("FenceOpen"), alphabet("FenceBody")
    out = []
    for o in ops:
        run = o.rstrip(" i")
        for b1 in body:
            for b2 in [None] + list(body):
                for cl in (run, "", run[:-1], run + run[0]):
                    ls = [o, b1] + ([b2] if b2 is not None else []) + ([cl] if cl else [])
                    out.append("\n".join(ls) + "\n")
                    out.append("\n".join(ls + ["tail"]) + "\n")
    return sorted(set(out))


def sample(items, n, seed, keep_short=0):
    """Deterministic subsample; the `keep_short` shortest items are always kept."""
    items = list(items)
    if len(items) <= n:
        return items
    head = sorted(items, key=len)[:keep_short]
    rnd = random.Random(seed)
    rest = rnd.sample(items, n - len(head))
    return head + rest


def configs(tier, rep=None):
    r = C.run_tlc("MCConfigGen", f"ConfigGen_{tier}.cfg", allow_violation=False, workers=8, timeout=900)
    if rep is not None:
        rep.tlc(f"ConfigGen[{tier}]", r)
    out = []
    for line in r.out.splitlines():
        if line.startswith('"{'):
            c = json.loads(json.loads(line))
            c["on"], c["off"] = sorted(c["on"]), sorted(c["off"])
            c["opts"] = sorted([list(x) for x in c["opts"]])
            out.append(c)
    out.sort(key=lambda c: json.dumps(c, sort_keys=True))
    return out


QUOTES = {"qeven": ["<<", ">>", "", ""], "q4": "«»‹›", "qlist": ["<a>", "\"&", "", "''x"], "qempty": ["", "", "‹", ""]}


def opt_value(k, v):
    if k == "quotes":
        return QUOTES[v]
    if k == "maxNesting":
        return int(v)
    return {"T": True, "F": False}.get(v, v)


def make_md(cfg):
    """Instance for a generated configuration {preset, on, off, opts}; options go through the
    constructor (the other two routes are exercised by the Facade checks)."""
    from markdown_it import MarkdownIt

    upd = {k: opt_value(k, v) for k, v in cfg.get("opts", [])}
    md = MarkdownIt(cfg["preset"], upd or None)
    if cfg.get("on"):
        md.enable(cfg["on"])
    if cfg.get("off"):
        md.disable(cfg["off"])
    return md


def cfg_key(cfg):
    return json.dumps(cfg, sort_keys=True, separators=(",", ":"))


BASE_CONFIGS = [
    {"preset": "commonmark", "on": [], "off": [], "opts": []},
    {"preset": "js-default", "on": [], "off": [], "opts": []},
    {"preset": "zero", "on": [], "off": [], "opts": []},
    {"preset": "commonmark", "on": ["table", "strikethrough"], "off": [], "opts": [["typographer", "T"]]},
    {"preset": "js-default", "on": ["replacements", "smartquotes"], "off": [], "opts": [["typographer", "T"], ["html", "T"]]},
]
