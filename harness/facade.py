"""Replay adapter for Facade.tla: drives real MarkdownIt instances along a history and records
the trace that FacadeTrace.tla validates (C12, C14, facade halves of C10/C11)."""
from __future__ import annotations

import copy
import hashlib
import json

from . import common as C

# concrete probe documents for the abstract ones of the specification
DOCS = {
    # every construct also occurs a second time in identical spelling (content-keyed caches), table rows with
    # empty edge cells (the row splitter's callers trim them)
    "D1": "[x]: /u 't'\n\npara *em* `c`\n\n> q\n> - li\n\n| a | b |\n|---|---|\n| 1 | 2 |\n|| 3 |\n|| 3 |\n| 4 ||\n\n```py\ncode\n```\n\n"
          "para *em* `c`\n\n|| h |\n|---|---|\n|| 3 |\n",
    "D2": "use [x] and ![x] ~~s~~ \"q\" -- <b>h</b>\n\n1. one\n2. two\nlazy\n\n<div>\nraw\n</div>\n\n"
          "[![b *c* `d`](/i \"t\")](/h) [e ![f ![g](/j)](/k) **h**](/l)\n\n"
          "<http://\u2603.net/> [p](https://b\u00fccher.example/\u00fc \"t\") <mailto:a@\u00e9.fr>\n",
    "D3": "# H [l](/a \"t\") ![i](/s)\n\nsetext\n===\n\n    code\n\n***\n\\* &amp; <http://x.y> line  \nbreak\n\n"
          "# H [l](/a \"t\") ![i](/s)\n\n\\* &amp; <http://x.y> &amp; [l](/a \"t\")\n",
}
# nesting exactly at the limits (20 for commonmark / zero, 100 for js-default) and one below: sensitive to any budget
# (nesting, recursion) that does not start afresh with every call
DOCS["D4"] = "".join("[" * n + "a" + "]" * n + "(/u)\n\n" for n in (20, 19, 100, 99)) + "> " * 19 + "q\n"
CHAINS = ["core", "block", "inline", "inline2"]
TERM = ["paragraph", "reference", "blockquote", "list"]

_CONST = None


def spec_constants():
    """Rule orders and option keys are taken from the specification (one source of truth)."""
    global _CONST
    if _CONST is None:
        r = C.run_tlc("FacadeConst", "FacadeConst.cfg", workers=1, allow_violation=False)
        line = [l for l in r.out.splitlines() if l.startswith('"{')][0]
        _CONST = json.loads(json.loads(line))
    return _CONST


class Arm:
    """Which user-code site raises at which invocation (harness state, not instance state)."""

    def __init__(self):
        self.site, self.k, self.exc = None, 0, None
        self.counts = {}

    def hit(self, site):
        self.counts[site] = self.counts.get(site, 0) + 1
        if self.site == site and self.counts[site] == self.k:
            raise self.exc


EXC = {"ValueError": ValueError, "KeyError": KeyError, "RecursionError": RecursionError,
       "KeyboardInterrupt": KeyboardInterrupt, "TypeError": TypeError, "AttributeError": AttributeError,
       "IndexError": IndexError, "StopIteration": StopIteration}


def make_plugin(arm):
    def plugin(md):
        def core_rule(state):
            arm.hit("core")

        def block_rule(state, startLine, endLine, silent):
            arm.hit("block")
            return False

        def inline_rule(state, silent):
            arm.hit("inline")
            return False

        def inline2_rule(state):
            arm.hit("inline2")

        md.core.ruler.push("verif_core", core_rule)
        # front of the chain, so that an active plugin rule is reached on every dispatch
        md.block.ruler.before(md.block.ruler.get_all_rules()[0], "verif_block", block_rule, {"alt": list(TERM)})
        md.inline.ruler.before(md.inline.ruler.get_all_rules()[0], "verif_inline", inline_rule)
        md.inline.ruler2.push("verif_inline2", inline2_rule)
    return plugin


def make_text_rule(arm):
    from markdown_it.renderer import RendererHTML

    def verif_text_rule(self, tokens, idx, options, env):
        arm.hit("render")
        return RendererHTML.text(self, tokens, idx, options, env)
    return verif_text_rule


def make_highlight(arm):
    def verif_highlight(content, lang, attrs):
        arm.hit("highlight")
        return ""
    return verif_highlight


def opt_value(v, arm_hl, k=None):
    if k == "maxNesting":
        return int(v)
    return {"T": True, "F": False, "H": arm_hl, "None": None}.get(v, v)


def opt_repr(k, v):
    if v is True:
        return "T"
    if v is False:
        return "F"
    if v is None:
        return "None"
    if callable(v):
        return "H" if getattr(v, "__name__", "") == "verif_highlight" else "callable"
    if k == "quotes":
        return "default" if v == "“”‘’" else C.ascii_safe(str(v))
    return C.ascii_safe(str(v))


def digest(api, res):
    if api.startswith("render"):
        s = res
    else:
        s = json.dumps([t.as_dict() for t in res], sort_keys=True, default=str)
    return hashlib.sha1(s.encode("utf-8", "surrogatepass")).hexdigest()[:16]


class World:
    def __init__(self):
        from markdown_it import main, presets

        self.K = spec_constants()
        self.inst = {}
        self.arms = {}
        self.stacks = {}
        self.env = {}
        self.pristine = self._presets_snapshot()
        self.main, self.presets = main, presets
        self.allfn = None

    def _presets_snapshot(self):
        from markdown_it import main, presets

        return json.dumps({"live": {k: main._PRESETS[k] for k in sorted(main._PRESETS)},
                           "made": {n: getattr(presets, n).make() for n in ("commonmark", "default", "zero", "js_default", "gfm_like")}},
                          sort_keys=True, default=repr)

    # ---- projection -------------------------------------------------------------------------
    def mask(self, chain, names):
        order = self.K["order"][chain] + ["verif_" + chain]
        m = 0
        for n in names:
            if n in order:
                m += 1 << order.index(n)
        return m

    def proj(self, i):
        md = self.inst.get(i)
        if md is None:
            return {"i": i, "live": 0, "plug": 0, "masks": [0, 0, 0, 0], "opts": [], "rr": []}
        act = md.get_active_rules()
        allr = md.get_all_rules()
        o = md.options
        vals = []
        for k in self.K["optkeys"]:
            try:
                v1 = o[k]
                present = True
            except KeyError:
                present = False
            if not present:
                vals.append("absent")
                continue
            r = opt_repr(k, v1)
            # the attribute route must read the same value where the attribute is documented
            if k in self.K["attrkeys"]:
                r2 = opt_repr(k, getattr(o, k))
                if r2 != r:
                    r = f"item={r}|attr={r2}"
            if o.get(k, "absent") is not v1 and o.get(k) != v1:
                r = r + "|get-differs"
            vals.append(r)
        rr = sorted(n for n, f in md.renderer.rules.items()
                    if getattr(getattr(f, "__func__", f), "__name__", "").startswith("verif_"))
        return {"i": i, "live": 1, "plug": 1 if "verif_block" in allr["block"] else 0,
                "masks": [self.mask(c, act[c]) for c in CHAINS], "opts": vals, "rr": rr}

    def fn_names(self):
        """function identity -> rule name, from an all-enabled reference instance (public API only)."""
        if self.allfn is None:
            from markdown_it import MarkdownIt

            ref = MarkdownIt("js-default")
            ref.enable("linkify")
            tab = {}
            for c, ruler in (("core", ref.core.ruler), ("block", ref.block.ruler), ("inline", ref.inline.ruler),
                             ("inline2", ref.inline.ruler2)):
                for name, fn in zip(ruler.get_active_rules(), ruler.getRules("")):
                    tab[(c, id(fn))] = name
            self.allfn = tab
        return self.allfn

    def applied(self, md):
        tab = self.fn_names()

        def names(c, ruler, chain):
            out = []
            for fn in ruler.getRules(chain):
                n = tab.get((c, id(fn)))
                if n is None and getattr(fn, "__name__", "").endswith("_rule"):
                    n = "verif_" + c
                out.append(n or "?")
            return out
        rul = {"core": md.core.ruler, "block": md.block.ruler, "inline": md.inline.ruler, "inline2": md.inline.ruler2}
        main = [self.mask(c, names(c, rul[c], "")) for c in CHAINS]
        term = [[t, self.mask("block", names("block", md.block.ruler, t))] for t in TERM]
        return {"main": main, "term": term}

    # ---- fresh twin built from the public projection of the live instance ---------------------
    def fresh_like(self, md, arm):
        from markdown_it import MarkdownIt

        f = MarkdownIt("zero")
        if "verif_block" in md.get_all_rules()["block"]:
            f.use(make_plugin(arm))
        act = md.get_active_rules()
        f.core.ruler.enableOnly(act["core"])
        f.block.ruler.enableOnly(act["block"])
        f.inline.ruler.enableOnly(act["inline"])
        f.inline.ruler2.enableOnly(act["inline2"])
        f.set(dict(md.options))
        for n, fn in md.renderer.rules.items():
            if getattr(getattr(fn, "__func__", fn), "__name__", "").startswith("verif_"):
                f.add_render_rule(n, make_text_rule(arm))
        return f

    # ---- executing one action -----------------------------------------------------------------
    def step(self, e, idx=0):
        from markdown_it import MarkdownIt

        op = e["op"]
        ev = {k: (sorted(v) if isinstance(v, (set, frozenset)) else v) for k, v in e.items()}
        i = e.get("i")
        md = self.inst.get(i)
        out = "ok"
        try:
            if op in ("construct", "configure"):
                arm = self.arms.setdefault(i, Arm())
                upd = {k: opt_value(v, make_highlight(arm), k) for k, v in e["upd"]}
                ev["upd"] = [list(x) for x in e["upd"]]
                if op == "construct":
                    self.arms[i] = arm = Arm()
                    upd = {k: opt_value(v, make_highlight(arm), k) for k, v in e["upd"]}
                    self.inst[i] = MarkdownIt(e["preset"], upd if (upd or idx % 2) else None)
                    self.stacks[i] = []
                else:
                    md.configure(e["preset"], options_update=upd if (upd or idx % 2) else None)
            elif op == "discard":
                del self.inst[i]
            elif op == "use":
                md.use(make_plugin(self.arms[i]))
            elif op in ("enable", "disable"):
                names = sorted(e["names"])
                arg = names[0] if (len(names) == 1 and idx % 2 == 0) else names
                try:
                    getattr(md, op)(arg, e["ign"]) if (e["ign"] or idx % 2) else getattr(md, op)(arg)
                except ValueError:
                    out = "ValueError"
                ev["names"] = names
            elif op == "chain_toggle":
                ruler = {"core": md.core.ruler, "block": md.block.ruler, "inline": md.inline.ruler,
                         "inline2": md.inline.ruler2}[e["chain"]]
                names = sorted(e["names"])
                arg = names[0] if (len(names) == 1 and idx % 2 == 0) else names
                getattr(ruler, e["kind"])(arg, True)
                ev["names"] = names
            elif op == "setopt":
                v = opt_value(e["v"], make_highlight(self.arms[i]), e["k"])
                if e["route"] == "attr" and e["k"] in self.K["attrkeys"]:
                    setattr(md.options, e["k"], v)
                else:
                    md.options[e["k"]] = v
            elif op == "share_opts":
                other = self.inst[e["j"]]
                if idx % 2:
                    md.set(other.options)
                else:
                    md.configure({"options": other.options, "components": {}})
                if self._has_highlight(md):     # harness bookkeeping: the callback of i counts on i's own fault arm
                    md.options["highlight"] = make_highlight(self.arms[i])
            elif op == "add_render_rule":
                md.add_render_rule(e["name"], make_text_rule(self.arms[i]))
            elif op == "enter_reset":
                cm = md.reset_rules()
                cm.__enter__()
                self.stacks[i].append(cm)
            elif op == "exit_reset":
                cm = self.stacks[i].pop()
                if e["how"] == "normal":
                    cm.__exit__(None, None, None)
                else:
                    ex = ValueError("body raised")
                    try:
                        swallowed = cm.__exit__(ValueError, ex, None)
                        out = "swallowed" if swallowed else "propagated"
                    except ValueError as ex2:
                        out = "propagated" if ex2 is ex else "replaced"
            elif op == "parse":
                arm = self.arms[i]
                arm.site, arm.counts = None, {}
                doc = DOCS[e["doc"]]
                mode = e["env"]
                fresh = self.fresh_like(md, Arm())
                fenv = copy.deepcopy(self.env) if mode == "shared" else {}
                args = (doc,) if mode == "omitted" else (doc, {} if mode == "fresh" else self.env)
                res = getattr(md, e["api"])(*args)
                ev["res"] = digest(e["api"], res)
                ev["spy"] = [1 if arm.counts.get(c, 0) else 0 for c in CHAINS]
                ev["fresh"] = digest(e["api"], getattr(fresh, e["api"])(*((doc,) if mode == "omitted" else (doc, fenv))))
                ev["applied"] = self.applied(md)
            elif op == "fault":
                arm = self.arms[i]
                doc = DOCS[e["doc"]]
                # counting run on a twin, then the faulty run at invocation k of the live instance
                k = e.get("k")
                if k is None:
                    carm = Arm()
                    tw = self.fresh_like(md, carm)
                    if self._has_highlight(md):
                        tw.options["highlight"] = make_highlight(carm)
                    tw.render(doc)
                    n = carm.counts.get(e["site"], 0)
                    if n == 0:
                        raise C.MachineryError(f"fault site {e['site']} is never invoked on {e['doc']}")
                    k = 1 + (idx * 7919 + len(doc)) % n
                ev["k"] = k
                arm.site, arm.k, arm.exc, arm.counts = e["site"], k, EXC[e["exc"]]("injected"), {}
                try:
                    md.render(doc)
                    out = "no_exception"
                except BaseException as ex:  # noqa
                    out = type(ex).__name__ if ex is arm.exc else "replaced:" + type(ex).__name__
                finally:
                    arm.site = None
            else:
                raise C.MachineryError(f"unknown facade op {op}")
        except C.MachineryError:
            raise
        except Exception as ex:  # an exception where the model expects none is an observation
            out = "raised:" + type(ex).__name__
            if op == "parse":
                ev.setdefault("res", "raised"); ev.setdefault("fresh", "raised-fresh")
                ev.setdefault("spy", [0, 0, 0, 0]); ev.setdefault("applied", {"main": [0, 0, 0, 0], "term": []})
        ev["out"] = out
        # after a rule-management call the chains are also OBSERVED (getRules) on every second history position:
        # applied must equal reported there too, and a later parse must not depend on whether anybody looked
        if op in ("enable", "disable", "chain_toggle", "configure", "use", "enter_reset", "exit_reset") and self.inst.get(i) is not None:
            ev["applied"] = self.applied(self.inst[i]) if idx % 2 else {"main": [], "term": []}
        ev["proj"] = [self.proj(j) for j in (1, 2, 3)]
        ev["presets_ok"] = 1 if self._presets_snapshot() == self.pristine else 0
        ev["envlabels"] = sorted(k.lower() for k in self.env.get("references", {}))
        return ev

    @staticmethod
    def _has_highlight(md):
        return callable(md.options.get("highlight"))


INJECT_BEFORE = {"enable", "disable", "chain_toggle", "configure", "exit_reset", "setopt", "share_opts"}


def execute(hist_idx):
    """(history, index) -> trace; the index only varies equivalent spellings of a call."""
    hist, idx = hist_idx
    w = World()
    out = []
    for n, e in enumerate(hist):
        # every third history: a fault in the inline plugin rule is injected BEFORE each rule-management call of an
        # instance on which that rule is installed and active (a fault is a no-op of the model, so the shortest
        # history to a state never has one in the middle; what it leaves behind only shows after a later change)
        if idx % 3 == 2 and e["op"] in INJECT_BEFORE and w.inst.get(e.get("i")) is not None:
            md = w.inst[e["i"]]
            if "verif_inline" in md.get_active_rules()["inline"] and "paragraph" in md.get_active_rules()["block"]:
                f = {"op": "fault", "i": e["i"], "doc": "D2", "site": "inline", "exc": ("ValueError", "KeyError")[n % 2]}
                out.append(w.step(f, idx + n))
                for d in ("D4", "D2"):
                    out.append(w.step({"op": "parse", "i": e["i"], "api": "render", "doc": d, "env": "omitted"}, idx))
        out.append(w.step(e, idx + n))
        if e["op"] == "fault":
            # the statement: identical results for subsequent parses
            for d in ("D1", "D2", "D3", "D4"):
                out.append(w.step({"op": "parse", "i": e["i"], "api": "render", "doc": d, "env": "omitted"}, idx))
    return {"ev": out}


def histories_from(r):
    hs = []
    for line in r.out.splitlines():
        if line.startswith('"[{'):
            hs.append(json.loads(json.loads(line)))
    return hs
