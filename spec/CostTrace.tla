------------------------------- MODULE CostTrace -------------------------------
(***************************************************************************)
(* C20 budget acceptor.  One trace per (family, preset): measurements      *)
(*   <<chars, calls, depth, raised>>  at sizes L, 2L, 4L                    *)
(* calls = Python-level calls into markdown_it during render (the          *)
(* property's own deterministic cost measure), depth = deepest nesting of  *)
(* tokenize() frames, maxn = options.maxNesting.                           *)
(* Clauses:                                                                *)
(*   superlinear        the cost per 100 characters grows by more than     *)
(*                      15 % (+ a constant allowance) from one size to the *)
(*                      next - "doubling the input never more than roughly *)
(*                      doubles the work"                                  *)
(*   nesting_not_cut    tokenize() nested deeper than maxNesting allows    *)
(* Integers stay below 2^31: costs are compared per 100 characters.        *)
(***************************************************************************)
EXTENDS Integers, Sequences, FiniteSets, TLC, Json, IOUtils

VARIABLES tid, l, verdict, done
tvars == <<tid, l, verdict, done>>
Data   == JsonDeserialize(IOEnv.TRACE_FILE)
Traces == Data.traces
Tr     == Traces[tid]
M      == Tr.m

Per100(k) == M[k][2] \div ((M[k][1] \div 100) + 1)       \* calls per 100 characters
Allowance == 2000                                         \* start-up cost, per 100 characters of the smaller size

Check(k) ==
    IF M[k][4] = 1 THEN "raised"
    ELSE IF M[k][3] > Tr.maxn + 2 THEN "nesting_not_cut"
    ELSE IF k > 1 /\ 100 * Per100(k) > 115 * Per100(k - 1) + 100 * Allowance THEN "superlinear"
    ELSE "ok"

Consume == /\ l' = l + 1 /\ verdict' = Check(l) /\ UNCHANGED <<tid, done>>
Finish == /\ PrintT(<<"V", tid, verdict, l>>) /\ done' = TRUE /\ UNCHANGED <<tid, l, verdict>>
TraceInit == tid \in 1..Len(Traces) /\ l = 1 /\ verdict = "ok" /\ done = FALSE
TraceNext == /\ ~done
             /\ IF verdict # "ok" \/ l > Len(M) THEN Finish ELSE Consume
TraceSpec == TraceInit /\ [][TraceNext]_tvars
=============================================================================
