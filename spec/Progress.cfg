CONSTANTS
  N = 6
  MaxNesting = 3
  Fallback = TRUE
  WorkCap = 40
SPECIFICATION Spec
INVARIANT FramesOK
INVARIANT DepthBounded
INVARIANT WorkLinear
PROPERTY Termination
CHECK_DEADLOCK FALSE
