CONSTANTS
  Alphabet <- LB
  Core <- LBCore
  Mid <- LBCore
  MaxAll = 3
  MaxMid = 3
  MaxCore = 3
  Wrappers <- NoWrap
  MaxWrap = 0
  MaxDeep = 0
SPECIFICATION Spec
INVARIANT Bounded
INVARIANT Shape
INVARIANT WrapsOK
CHECK_DEADLOCK FALSE
