CONSTANTS
  Threads <- MCThreads2
  Rulers <- MCRulers
  RuleSeq <- MCRuleSeq
  Calls <- MCCalls2
  Variant = "head"
SPECIFICATION Spec
INVARIANT NoPartialView
INVARIANT ResultsAsSolo
INVARIANT PublishedIsComplete
PROPERTY Termination
CHECK_DEADLOCK FALSE
