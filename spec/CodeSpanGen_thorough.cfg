CONSTANTS
  Body <- MCBody
  MaxLen = 5
  Ticks = {1, 2, 3}
SPECIFICATION Spec
CHECK_DEADLOCK FALSE
