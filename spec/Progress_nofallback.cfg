CONSTANTS
  N = 6
  MaxNesting = 3
  Fallback = FALSE
  WorkCap = 40
SPECIFICATION Spec
INVARIANT FramesOK
INVARIANT DepthBounded
INVARIANT WorkLinear
CHECK_DEADLOCK FALSE
