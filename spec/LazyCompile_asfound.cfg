CONSTANTS
  Threads <- MCThreads2
  Rulers <- MCRulers
  RuleSeq <- MCRuleSeq
  Calls <- MCCalls2
  Variant = "as_found"
SPECIFICATION Spec
INVARIANT NoPartialView
INVARIANT ResultsAsSolo
CHECK_DEADLOCK FALSE
