---------------------------- MODULE CodeSpanGen ----------------------------
(***************************************************************************)
(* Generator for the code-span clause of C08: documents                    *)
(*     "x " ticks^n body ticks^n " y"                                      *)
(* with body over blanks of several kinds, a line ending, letters and      *)
(* shorter tick runs.  Legal(body, n) keeps the construct a single code    *)
(* span inside one paragraph (the side conditions are part of the spec).   *)
(***************************************************************************)
EXTENDS Integers, Sequences, FiniteSets, TLC, Json

CONSTANTS Body,      \* sequence of code points usable in a body
          MaxLen, Ticks

VARIABLES body, n
vars == <<body, n>>

TICK == 96
Legal ==
    /\ body # <<>>
    /\ body[1] # TICK /\ body[Len(body)] # TICK
    /\ \A k \in DOMAIN body : body[k] = TICK => n >= 2 /\ (k < Len(body) => body[k + 1] # TICK)
    /\ \A k \in DOMAIN body : body[k] = 10 =>
          /\ n <= 2
          /\ k < Len(body) => body[k + 1] \notin {32, 9, 10}

Init == body = <<>> /\ n \in Ticks
Extend(c) == Len(body) < MaxLen /\ body' = Append(body, c) /\ UNCHANGED n
Next == (Legal => PrintT(ToJson([n |-> n, body |-> body]))) /\ \E k \in DOMAIN Body : Extend(Body[k])
Spec == Init /\ [][Next]_vars
=============================================================================
