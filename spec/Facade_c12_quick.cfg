CONSTANTS
  Inst = {1, 2}
  Presets = {"commonmark", "js-default", "zero"}
  ToggleNames = {"table", "nosuch"}
  MaxNames = 1
  OptChoices <- OptC12
  RRNames = {"text"}
  Docs = {"D1", "D2"}
  Defines <- MCDefines
  FaultSites = {}
  MaxCtx = 0
  MaxDepth = 5
  ChainToggleChains = {"inline", "inline2"}
  Variant = "head"
SPECIFICATION SpecP
VIEW view
CONSTRAINT Bound
INVARIANT TypeOK
PROPERTY Isolation
PROPERTY ResetRestores
PROPERTY CallsAreInert
PROPERTY RoutesAgree
