------------------------------ MODULE SystemTrace ------------------------------
(***************************************************************************)
(* System-level contracts (growth beyond the listed properties, DESIGN §8):*)
(* the rule contracts that Progress.tla ASSUMES, checked on the real rules, *)
(* plus the order of the core pipeline.  Every rule of every chain is      *)
(* replaced (public API: ruler.at) by a wrapper that logs one event per    *)
(* invocation and delegates:                                               *)
(*  ["c", name]                                   a core rule ran          *)
(*  ["b", name, silent, res, start, end, line0, line1, nt0, nt1, lv0, lv1, *)
(*        tableSame, ctxSame, parentTypeSame, depth, envSame]  (ENTRY order) *)
(*  ["i", name, silent, res, pos0, pos1, pmax0, pmax1, nt0, nt1, pd0, pd1, *)
(*        lv0, lv1, depth]                      (in order of ENTRY)        *)
(* Clauses:                                                                *)
(*  core_order           the core rules that ran are exactly the enabled   *)
(*                       ones, in registration order, once each            *)
(*  failed_rule_left_tokens / failed_rule_moved   a rule that returns      *)
(*                       False pushed nothing and did not move the cursor  *)
(*  silent_call_left_tokens   silent (look-ahead) calls create no tokens   *)
(*  failed_rule_changed_env   a block rule that fails or runs silently     *)
(*                       leaves env as found (keys, number of definitions  *)
(*                       and duplicates)                                   *)
(*  no_progress          a successful non-silent call advanced the cursor  *)
(*  cursor_beyond_frame  ... and stayed inside its frame                   *)
(*  level_not_restored   a rule call leaves state.level as it found it     *)
(*  line_table_not_restored   a block rule call (successful or not) leaves *)
(*                       bMarks/eMarks/tShift/sCount/bsCount as found:     *)
(*                       containers rewrite them in place and restore them *)
(*  block_context_not_restored   ... and blkIndent, listIndent             *)
(*  parent_type_not_restored     ... and parentType (except: see below)    *)
(*  dispatch_order        per depth of nested rule calls, non-silent calls *)
(*                       try the rules of the active chain in order from   *)
(*                       the first one until one succeeds (see Consume)    *)
(*  posmax_not_restored  an inline rule leaves posMax as it found it       *)
(*                       (link text is parsed with posMax shrunk)          *)
(***************************************************************************)
EXTENDS Integers, Sequences, FiniteSets, TLC, Json, IOUtils

VARIABLES tid, l, verdict, done, coreSeen,
          bcur, icur    \* dispatch machines: per call depth, the index of the next rule of the chain to be tried
tvars == <<tid, l, verdict, done, coreSeen, bcur, icur>>
Data   == JsonDeserialize(IOEnv.TRACE_FILE)
Traces == Data.traces
Tr     == Traces[tid]
Ev     == Tr.ev

BlockVerdict(e) ==
    LET silent == e[3] = 1 res == e[4] = 1 IN
    IF ~res /\ e[10] # e[9] THEN "failed_rule_left_tokens"
    ELSE IF ~res /\ e[8] # e[7] THEN "failed_rule_moved"
    ELSE IF silent /\ e[10] # e[9] THEN "silent_call_left_tokens"
    ELSE IF res /\ ~silent /\ e[8] <= e[5] THEN "no_progress"
    ELSE IF res /\ ~silent /\ e[8] > e[6] THEN "cursor_beyond_frame"
    ELSE IF (~res \/ silent) /\ e[17] # 1 THEN "failed_rule_changed_env"
    ELSE IF e[12] # e[11] THEN "level_not_restored"
    ELSE IF e[13] # 1 THEN "line_table_not_restored"
    ELSE IF e[14] # 1 THEN "block_context_not_restored"
    \* named deviation: a FAILING lheading / reference leaves parentType = "paragraph" / "reference" behind (as
    \* upstream does); the only reader of parentType (the list rule consulted as a terminator) always runs
    \* under a rule that has set it first, so the leak is not observable
    ELSE IF e[15] # 1 /\ ~(e[2] \in {"lheading", "reference"} /\ ~res) THEN "parent_type_not_restored"
    ELSE "ok"

InlineVerdict(e) ==
    LET silent == e[3] = 1 res == e[4] = 1 IN
    IF ~res /\ (e[10] # e[9] \/ e[12] # e[11]) THEN "failed_rule_left_tokens"
    ELSE IF ~res /\ e[6] # e[5] THEN "failed_rule_moved"
    ELSE IF silent /\ (e[10] # e[9] \/ e[12] # e[11]) THEN "silent_call_left_tokens"
    ELSE IF res /\ e[6] <= e[5] THEN "no_progress"
    ELSE IF res /\ e[6] > e[7] THEN "cursor_beyond_frame"
    ELSE IF e[8] # e[7] THEN "posmax_not_restored"
    ELSE IF e[14] # e[13] THEN "level_not_restored"
    ELSE "ok"

(* The dispatch machine of ParserBlock.tokenize / ParserInline.tokenize (events are in order of rule ENTRY and
   carry the depth of nested rule calls): at one position the rules of the active chain are tried in registration
   order from the first one, until one succeeds (block: the paragraph fallback always does; inline: when all
   fail one character is taken as text and dispatch starts over).  Per depth the non-silent calls therefore spell
   (chain[1..k-1] failing, chain[k] succeeding)* - nested dispatch loops of the same depth simply concatenate.
   Silent calls (terminator consultations, skipToken) are not constrained here. *)
CurOf(f, d) == IF d \in DOMAIN f THEN f[d] ELSE 1
Put(f, d, v) == [x \in DOMAIN f \cup {d} |-> IF x = d THEN v ELSE f[x]]
DispatchVerdict(chain, cur, name) ==
    IF cur > Len(chain) \/ chain[cur] # name THEN "dispatch_order" ELSE "ok"
Advance(chain, cur, res) == IF res \/ cur >= Len(chain) THEN 1 ELSE cur + 1

Consume ==
    LET e == Ev[l]
        silent == e[1] \in {"b", "i"} /\ e[3] = 1
        d == IF e[1] = "b" THEN e[16] ELSE IF e[1] = "i" THEN e[15] ELSE 0
        dv == IF e[1] = "b" /\ ~silent THEN DispatchVerdict(Tr.bchain, CurOf(bcur, d), e[2])
              ELSE IF e[1] = "i" /\ ~silent THEN DispatchVerdict(Tr.ichain, CurOf(icur, d), e[2])
              ELSE "ok"
        rv == CASE e[1] = "c" -> "ok" [] e[1] = "b" -> BlockVerdict(e) [] e[1] = "i" -> InlineVerdict(e)
    IN
    /\ l' = l + 1
    /\ verdict' = IF rv # "ok" THEN rv ELSE dv
    /\ coreSeen' = IF e[1] = "c" THEN Append(coreSeen, e[2]) ELSE coreSeen
    /\ bcur' = IF e[1] = "b" /\ ~silent THEN Put(bcur, d, Advance(Tr.bchain, CurOf(bcur, d), e[4] = 1)) ELSE bcur
    /\ icur' = IF e[1] = "i" /\ ~silent THEN Put(icur, d, Advance(Tr.ichain, CurOf(icur, d), e[4] = 1)) ELSE icur
    /\ UNCHANGED <<tid, done>>

Finish == /\ PrintT(<<"V", tid, IF verdict = "ok" /\ l > Len(Ev) /\ coreSeen # Tr.core THEN "core_order" ELSE verdict, l>>)
          /\ done' = TRUE /\ UNCHANGED <<tid, l, verdict, coreSeen, bcur, icur>>
TraceInit == /\ tid \in 1..Len(Traces) /\ l = 1 /\ verdict = "ok" /\ done = FALSE /\ coreSeen = <<>>
             /\ bcur = <<>> /\ icur = <<>>
TraceNext == /\ ~done
             /\ IF verdict # "ok" \/ l > Len(Ev) THEN Finish ELSE Consume
TraceSpec == TraceInit /\ [][TraceNext]_tvars
=============================================================================
