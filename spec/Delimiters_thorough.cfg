CONSTANTS
  Markers = {42, 95}
  MaxLen = 2
  MaxRuns = 4
  Variant = "code"
SPECIFICATION Spec
INVARIANT OptIsNaive
INVARIANT WellPaired
CHECK_DEADLOCK FALSE
