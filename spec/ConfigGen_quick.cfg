CONSTANTS
  Presets = {"commonmark", "js-default", "zero"}
  OptionalRules <- Rules
  OptChoices <- Opts
  MaxToggles = 1
  MaxOpts = 1
SPECIFICATION Spec
INVARIANT Supported
CHECK_DEADLOCK FALSE
