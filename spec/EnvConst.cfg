CONSTANTS
  Classes <- MCClassesQ
  MaxR = 1
  MaxD = 1
  DefKinds <- MCKindsQ
  DDefKinds <- MCDKinds
  MaxSpell = 1
INIT Init
NEXT Stop
CHECK_DEADLOCK FALSE
