--------------------------- MODULE DocAlgebraTrace ---------------------------
(***************************************************************************)
(* Laws between parses of related documents (C06, C07, C16, C17, C18).     *)
(* The specification never computes a parse from source (R3): a trace      *)
(* binds the OBSERVED parse of a base document and of a derived document;  *)
(* the specification (i) checks that the derived document is the stated    *)
(* operation applied to the base document, (ii) evaluates the side         *)
(* conditions of the law on the documents (a failed guard yields the       *)
(* verdict "skip:<guard>", which is not a violation), and (iii) computes   *)
(* the PREDICTED parse of the derived document from the observed base      *)
(* parse and compares it with the observed one, naming the first           *)
(* difference.                                                             *)
(*                                                                         *)
(* A parse is [lines, toks, refs, dups, html]; a token is a flat record    *)
(*   [ty, tag, n, lv, map, mk, info, c, cl, hid, at, me, kids, blk]        *)
(* (c content, cl content with the leading blanks of every line removed,   *)
(* at / me / kids canonical JSON of attrs / meta / children, compared as   *)
(* opaque strings).  Lines are sequences of code points.                   *)
(***************************************************************************)
EXTENDS Integers, Sequences, FiniteSets, TLC, Json, IOUtils

VARIABLES tid, l, verdict, done
tvars == <<tid, l, verdict, done>>
Data   == JsonDeserialize(IOEnv.TRACE_FILE)
Traces == Data.traces
Tr     == Traces[tid]

-----------------------------------------------------------------------------
(* documents *)
Spaces(k) == [i \in 1..k |-> 32]
NoCtl(lines) == \A i \in DOMAIN lines : \A k \in DOMAIN lines[i] : lines[i][k] \notin {9, 13, 0}
Count(s, c) == Cardinality({k \in DOMAIN s : s[k] = c})
IsThematicBreak(s) ==
    /\ s # <<>> /\ s[1] \in {42, 45, 95}
    /\ \A k \in DOMAIN s : s[k] \in {s[1], 32, 9}
    /\ Count(s, s[1]) >= 3

QuoteDoc(lines) == [i \in DOMAIN lines |-> <<62, 32>> \o lines[i]]
ListDoc(lines, marker, w) ==
    [i \in DOMAIN lines |-> IF i = 1 THEN marker \o Spaces(w) \o lines[1]
                            ELSE Spaces(Len(marker) + w) \o lines[i]]

(* tokens *)
Lift(ts, d)  == [i \in DOMAIN ts |-> [ts[i] EXCEPT !.lv = @ + d]]
Shift(ts, k) == [i \in DOMAIN ts |-> [ts[i] EXCEPT !.map = IF @ = <<>> THEN <<>> ELSE <<@[1] + k, @[2] + k>>]]
ShiftRefs(rs, k) == [i \in DOMAIN rs |-> [rs[i] EXCEPT !.map = <<@[1] + k, @[2] + k>>]]
MaxLevel(ts) == IF ts = <<>> THEN 0 ELSE CHOOSE m \in {ts[i].lv : i \in DOMAIN ts} : \A i \in DOMAIN ts : ts[i].lv <= m

(* first difference between an observed and a predicted token, "" if none;
   `loose` = the list-item form: hidden flags and leading blanks of content lines are not compared *)
TokDiff(o, p, loose) ==
    IF o.ty # p.ty THEN "type"
    ELSE IF o.tag # p.tag THEN "tag"
    ELSE IF o.n # p.n THEN "nesting"
    ELSE IF o.lv # p.lv THEN "level"
    ELSE IF o.map # p.map THEN "map"
    ELSE IF o.mk # p.mk THEN "markup"
    ELSE IF o.info # p.info THEN "info"
    ELSE IF (IF loose THEN o.cl # p.cl ELSE o.c # p.c) THEN "content"
    ELSE IF ~loose /\ o.hid # p.hid THEN "hidden"
    ELSE IF o.at # p.at THEN "attrs"
    ELSE IF o.me # p.me THEN "meta"
    \* list-item form: leading spaces kept on lazy continuation lines may also sit inside a code span (or a raw
    \* HTML tag) that continues on such a line: kidsw = children with the white-space runs of those collapsed
    ELSE IF (IF loose THEN o.kidsw # p.kidsw ELSE o.kids # p.kids) THEN "children"
    ELSE IF o.blk # p.blk THEN "block_flag"
    ELSE ""

SeqDiff(obs, pred, loose) ==
    IF Len(obs) # Len(pred) THEN "token_count"
    ELSE LET bad == {i \in DOMAIN obs : TokDiff(obs[i], pred[i], loose) # ""} IN
         IF bad = {} THEN ""
         ELSE TokDiff(obs[CHOOSE i \in bad : \A j \in bad : i <= j], pred[CHOOSE i \in bad : \A j \in bad : i <= j], loose)

Wrapper(o, ty, tag, n, lv, mk) ==
    o.ty = ty /\ o.tag = tag /\ o.n = n /\ o.lv = lv /\ o.mk = mk /\ o.kids = "null"

-----------------------------------------------------------------------------
(* C06 - block-quote form *)
QuoteLaw ==
    LET B == Tr.base D == Tr.der n == Len(D.toks) IN
    IF D.lines # QuoteDoc(B.lines) THEN "harness:derived_document"
    ELSE IF ~NoCtl(B.lines) THEN "skip:control_characters"
    ELSE IF MaxLevel(B.toks) + 4 >= Tr.maxn THEN "skip:near_max_nesting"
    ELSE IF n # Len(B.toks) + 2 THEN "token_count"
    ELSE IF ~Wrapper(D.toks[1], "blockquote_open", "blockquote", 1, 0, ">") THEN "wrapper_open"
    ELSE IF ~Wrapper(D.toks[n], "blockquote_close", "blockquote", -1, 0, ">") THEN "wrapper_close"
    ELSE LET d == SeqDiff(SubSeq(D.toks, 2, n - 1), Lift(B.toks, 1), FALSE) IN
         IF d # "" THEN d
         ELSE IF D.refs # B.refs THEN "references"
         ELSE IF D.dups # B.dups THEN "duplicate_refs"
         ELSE "ok"

(* C06 - list-item form *)
ListLaw ==
    LET B == Tr.base D == Tr.der n == Len(D.toks) a == Tr.a
        ord == a.ordered = 1
        lty == IF ord THEN "ordered_list" ELSE "bullet_list"
        ltag == IF ord THEN "ol" ELSE "ul"
    IN
    IF B.lines = <<>> THEN "skip:empty_document"
    ELSE IF D.lines # ListDoc(B.lines, a.marker, a.w) THEN "harness:derived_document"
    ELSE IF ~NoCtl(B.lines) THEN "skip:control_characters"
    ELSE IF B.lines[1] = <<>> \/ B.lines[1][1] = 32 THEN "skip:starts_with_space"
    ELSE IF a.w < 1 \/ a.w > 4 THEN "skip:marker_width"
    ELSE IF IsThematicBreak(D.lines[1]) THEN "skip:thematic_break_precedence"
    ELSE IF MaxLevel(B.toks) + 5 >= Tr.maxn THEN "skip:near_max_nesting"
    ELSE IF n # Len(B.toks) + 4 THEN "token_count"
    ELSE IF ~(D.toks[1].ty = lty \o "_open" /\ D.toks[1].tag = ltag /\ D.toks[1].n = 1 /\ D.toks[1].lv = 0
              /\ D.toks[1].mk = a.mk /\ D.toks[1].at = a.at) THEN "wrapper_open"
    ELSE IF ~(D.toks[2].ty = "list_item_open" /\ D.toks[2].tag = "li" /\ D.toks[2].n = 1 /\ D.toks[2].lv = 1
              /\ D.toks[2].mk = a.mk /\ D.toks[2].info = a.info) THEN "item_open"
    ELSE IF ~(D.toks[n - 1].ty = "list_item_close" /\ D.toks[n - 1].n = -1 /\ D.toks[n - 1].lv = 1
              /\ D.toks[n - 1].mk = a.mk) THEN "item_close"
    ELSE IF ~(D.toks[n].ty = lty \o "_close" /\ D.toks[n].tag = ltag /\ D.toks[n].n = -1 /\ D.toks[n].lv = 0
              /\ D.toks[n].mk = a.mk) THEN "wrapper_close"
    ELSE LET d == SeqDiff(SubSeq(D.toks, 3, n - 2), Lift(B.toks, 2), TRUE) IN
         IF d # "" THEN d
         ELSE IF D.refs # B.refs THEN "references"
         ELSE IF D.dups # B.dups THEN "duplicate_refs"
         ELSE "ok"

-----------------------------------------------------------------------------
(* C07 - concatenation.  Trace: A1 = parse(A + "\n"), AP = parse(A + "\n" + "P\n"),
   B = parse(B), AB = parse(A + "\n" + B); children are not compared (kids blanked by the harness). *)
IsPara(ts, k, line) ==
    /\ ts[k].ty = "paragraph_open" /\ ts[k].lv = 0 /\ ts[k].map = <<line, line + 1>>
    /\ ts[k + 1].ty = "inline" /\ ts[k + 1].c = "P"
    /\ ts[k + 2].ty = "paragraph_close"

FirstTy(ts) == IF ts = <<>> THEN "" ELSE ts[1].ty
LastTopOpen(ts) ==   \* type of the last top-level block of a stream
    LET tops == {i \in DOMAIN ts : ts[i].lv = 0 /\ ts[i].n >= 0} IN
    IF tops = {} THEN "" ELSE ts[CHOOSE i \in tops : \A j \in tops : j <= i].ty
ListTypes == {"bullet_list_open", "ordered_list_open"}
CertainlyClosed == {"paragraph_open", "heading_open", "hr", "blockquote_open", "bullet_list_open",
                    "ordered_list_open", "code_block", "table_open"}

(* shape of a stream: everything but line ranges and text (a blank line may lengthen a container's range or the
   content of an unclosed verbatim block inside it) *)
Shape(ts) == [i \in DOMAIN ts |-> [ts[i] EXCEPT !.map = <<>>, !.c = "", !.cl = "", !.kids = "", !.info = ""]]
NoMapDiff(o, p) == SeqDiff(Shape(o), Shape(p), FALSE)

ConcatLaw ==
    LET A1 == Tr.a1 AP == Tr.ap B == Tr.base AB == Tr.der
        nA == Len(A1.lines) \* lines of A + "\n" (incl. the separating blank line)
        na == Len(A1.toks)
    IN
    IF ~NoCtl(A1.lines) \/ ~NoCtl(B.lines) THEN "skip:control_characters"
    ELSE IF B.lines = <<>> \/ B.lines[1] = <<>> \/ B.lines[1][1] = 32 THEN "skip:B_not_at_column_0"
    ELSE IF AB.lines # A1.lines \o B.lines THEN "harness:derived_document"
    ELSE IF ~(Len(AP.toks) = na + 3 /\ SeqDiff(SubSeq(AP.toks, 1, na), A1.toks, FALSE) = ""
              /\ IsPara(AP.toks, na + 1, nA)) THEN
         \* "A ends closed" is read off the implementation, as the statement defines it - except where
         \* CommonMark leaves no choice: after a blank line a column-0 paragraph cannot continue a block of
         \* one of the kinds below (only an unclosed fence / HTML block, or nothing but definitions, can
         \* stay open), so an A of that kind that swallows or alters the probe IS the leak C07 forbids.
         (IF LastTopOpen(A1.toks) \in CertainlyClosed THEN "closed_block_captures_following_paragraph"
          ELSE "skip:A_not_closed")
    \* the separating blank line itself: appended to a CLOSED A alone it may stretch line ranges and verbatim content,
    \* nothing else (no block appears, disappears, or changes its tight / loose flags because a blank line follows)
    ELSE IF NoMapDiff(Tr.a0.toks, A1.toks) # "" THEN "blank_line_after_A_changes_its_blocks:" \o NoMapDiff(Tr.a0.toks, A1.toks)
    ELSE IF LastTopOpen(A1.toks) \in ListTypes /\ FirstTy(B.toks) \in ListTypes THEN "skip:list_list_seam"
    ELSE IF LastTopOpen(A1.toks) = "code_block" /\ FirstTy(B.toks) = "code_block" THEN "skip:code_code_seam"
    ELSE LET d == SeqDiff(AB.toks, A1.toks \o Shift(B.toks, nA), FALSE) IN
         IF d # "" THEN d ELSE "ok"

-----------------------------------------------------------------------------
(* C17 - equivalent encodings.  Both parses carry `raw` (the source as code points), `ctl` (number of
   CR / NUL code points found in any token content, recursively) and `html`. *)
RECURSIVE RecodeEOL(_, _)
RecodeEOL(raw, pat) ==      \* pat: per line feed 1 = CR LF, 2 = CR, 3 = LF (cyclic)
    IF raw = <<>> THEN <<>>
    ELSE IF raw[1] = 10 THEN
         (CASE pat[1] = 1 -> <<13, 10>> [] pat[1] = 2 -> <<13>> [] OTHER -> <<10>>)
         \o RecodeEOL(Tail(raw), Tail(pat) \o <<pat[1]>>)
    ELSE <<raw[1]>> \o RecodeEOL(Tail(raw), pat)

RECURSIVE NormEOL(_)
NormEOL(raw) ==             \* CR LF -> LF, lone CR -> LF
    IF raw = <<>> THEN <<>>
    ELSE IF raw[1] = 13 THEN
         <<10>> \o NormEOL(IF Len(raw) >= 2 /\ raw[2] = 10 THEN SubSeq(raw, 3, Len(raw)) ELSE Tail(raw))
    ELSE <<raw[1]>> \o NormEOL(Tail(raw))

NulToFFFD(raw) == [k \in DOMAIN raw |-> IF raw[k] = 0 THEN 65533 ELSE raw[k]]

(* column-exact expansion of tabs, columns counted from the start of the physical line;
   leadOnly: only the tabs in a line's leading white space *)
RECURSIVE Expand(_, _, _, _)
Expand(raw, col, lead, leadOnly) ==
    IF raw = <<>> THEN <<>>
    ELSE LET c == raw[1] IN
         IF c = 10 THEN <<10>> \o Expand(Tail(raw), 0, TRUE, leadOnly)
         ELSE IF c = 9 /\ (lead \/ ~leadOnly) THEN
              Spaces(4 - (col % 4)) \o Expand(Tail(raw), col + 4 - (col % 4), lead, leadOnly)
         ELSE <<c>> \o Expand(Tail(raw), col + 1, lead /\ c = 32, leadOnly)

FullDiff(o, p) ==          \* identical token streams, children included
    IF Len(o) # Len(p) THEN "token_count"
    ELSE LET bad == {i \in DOMAIN o : o[i] # p[i]} IN
         IF bad = {} THEN "" ELSE TokDiff(o[CHOOSE i \in bad : \A j \in bad : i <= j],
                                          p[CHOOSE i \in bad : \A j \in bad : i <= j], FALSE)

(* tab law: same blocks, nesting, maps and text; leading white space of content lines and white space
   inside code spans (kidsw = children with white-space runs of code spans collapsed) not compared *)
TabDiff(o, p) ==
    IF Len(o) # Len(p) THEN "token_count"
    ELSE LET bad == {i \in DOMAIN o : TokDiff([o[i] EXCEPT !.kids = o[i].kidsw, !.c = ""],
                                              [p[i] EXCEPT !.kids = p[i].kidsw, !.c = ""], TRUE) # ""} IN
         IF bad = {} THEN ""
         ELSE LET i == CHOOSE i \in bad : \A j \in bad : i <= j IN
              TokDiff([o[i] EXCEPT !.kids = o[i].kidsw, !.c = ""], [p[i] EXCEPT !.kids = p[i].kidsw, !.c = ""], TRUE)

EncodingLaw ==
    LET B == Tr.base D == Tr.der IN
    IF Tr.op = "eol" THEN
        (IF \E k \in DOMAIN B.raw : B.raw[k] = 13 THEN "skip:base_has_CR"
         ELSE IF D.raw # RecodeEOL(B.raw, Tr.a.pat) THEN "harness:derived_document"
         ELSE IF NormEOL(D.raw) # B.raw THEN "skip:mixed_encoding_merges_CR_LF"
         ELSE IF D.ctl # 0 \/ B.ctl # 0 THEN "control_character_in_content"
         ELSE IF FullDiff(D.toks, B.toks) # "" THEN FullDiff(D.toks, B.toks)
         ELSE IF D.html # B.html THEN "html" ELSE "ok")
    ELSE IF Tr.op = "nul" THEN
        (IF D.raw # NulToFFFD(B.raw) THEN "harness:derived_document"
         ELSE IF ~\E k \in DOMAIN B.raw : B.raw[k] = 0 THEN "skip:no_NUL"
         ELSE IF D.ctl # 0 \/ B.ctl # 0 THEN "control_character_in_content"
         ELSE IF FullDiff(B.toks, D.toks) # "" THEN FullDiff(B.toks, D.toks)
         ELSE IF D.html # B.html THEN "html" ELSE "ok")
    ELSE \* tabs_lead / tabs_all
        (IF D.raw # Expand(B.raw, 0, TRUE, Tr.op = "tabs_lead") THEN "harness:derived_document"
         ELSE IF ~\E k \in DOMAIN B.raw : B.raw[k] = 9 THEN "skip:no_tab"
         ELSE IF D.raw = B.raw THEN "skip:no_structural_tab"
         ELSE IF \E k \in DOMAIN B.raw : B.raw[k] \in {13, 0} THEN "skip:control_characters"
         \* a tab that the parse places INSIDE a content line (after its leading blanks) is content,
         \* not structural white space: the law does not speak about it
         ELSE IF Tr.op = "tabs_all" /\ B.tabc > 0 THEN "skip:tab_inside_content"
         ELSE IF TabDiff(B.toks, D.toks) # "" THEN TabDiff(B.toks, D.toks) ELSE "ok")

-----------------------------------------------------------------------------
(* C18 (first half) - inline text means the same in every block context.
   inline_mode: base = parse(src), der = parseInline(src); bh / dh = render / renderInline as code points.
   embed: base = parse(t) (paragraph context), der = parse(context(t)); t as code points in Tr.a.t,
          Tr.a.ctx names the context; ih = HTML of the inline children in each context. *)
IsSinglePara(ts) ==
    /\ Len(ts) = 3 /\ ts[1].ty = "paragraph_open" /\ ts[2].ty = "inline" /\ ts[3].ty = "paragraph_close"

POpen  == <<60, 112, 62>>
PClose == <<60, 47, 112, 62, 10>>

(* a one-line text that starts with a letter, holds no line ending and does not end in (Unicode) white space IS one
   paragraph holding exactly that text: nothing in CommonMark can make it anything else.  For such a text the side
   condition of the two laws is not read off the implementation (a defect there would hide itself). *)
IsLetter(c) == (c >= 65 /\ c <= 90) \/ (c >= 97 /\ c <= 122)
UniWS == {9, 10, 11, 12, 13, 28, 29, 30, 31, 32, 133, 160, 5760, 8232, 8233, 8239, 8287, 12288} \cup (8192..8202)
CertainParagraph(t) == /\ t # <<>> /\ IsLetter(t[1]) /\ t[Len(t)] \notin UniWS
                       /\ \A k \in DOMAIN t : t[k] \notin {10, 13, 0}

InlineModeLaw ==
    LET B == Tr.base D == Tr.der IN
    IF ~IsSinglePara(B.toks) THEN (IF CertainParagraph(Tr.a.t) THEN "one_line_text_is_not_one_paragraph" ELSE "skip:not_a_single_paragraph")
    ELSE IF B.toks[2].c # Tr.a.src THEN (IF CertainParagraph(Tr.a.t) THEN "paragraph_does_not_hold_its_text"
                                         ELSE "skip:paragraph_does_not_hold_the_source")
    ELSE IF Len(D.toks) # 1 \/ D.toks[1].ty # "inline" THEN "not_one_inline_token"
    ELSE IF D.toks[1].kids # B.toks[2].kids THEN "children"
    ELSE IF D.toks[1].c # B.toks[2].c THEN "content"
    ELSE IF B.bh # POpen \o D.dh \o PClose THEN "renderInline"
    ELSE "ok"

IsAlnum(c) == (c >= 48 /\ c <= 57) \/ (c >= 65 /\ c <= 90) \/ (c >= 97 /\ c <= 122)

InlineOf(ts) ==   \* the inline tokens of a stream, in order
    SelectSeq(ts, LAMBDA x : x.ty = "inline")

EmbedLaw ==
    LET B == Tr.base D == Tr.der t == Tr.a.t ctx == Tr.a.ctx IN
    IF t = <<>> \/ t[1] \in {32, 9} \/ t[Len(t)] \in {32, 9} THEN "skip:not_trimmed"
    ELSE IF \E k \in DOMAIN t : t[k] \in {10, 13} THEN "skip:not_one_line"
    ELSE IF ~IsSinglePara(B.toks) \/ B.toks[2].c # Tr.a.src THEN
         (IF CertainParagraph(t) THEN "one_line_text_is_not_one_paragraph_holding_it" ELSE "skip:block_syntax_in_paragraph_context")
    ELSE IF ctx \in {"list", "quote", "list2"} /\ ~IsAlnum(t[1]) THEN "skip:not_alphanumeric_start"
    ELSE IF ctx = "atx" /\ t[Len(t)] = 35 THEN "skip:trailing_hash"
    ELSE IF ctx \in {"cell", "cell2"} /\ \E k \in DOMAIN t : t[k] \in {124, 92, 96} THEN "skip:pipe_backslash_backtick_in_cell"
    ELSE LET ins == InlineOf(D.toks)
             want == IF ctx \in {"cell", "cell2", "list2"} THEN 2 ELSE 1    \* header cell + body cell / two items
         IN
         IF Len(ins) # want THEN "inline_token_count"
         ELSE IF ins[want].c # B.toks[2].c THEN "content"
         ELSE IF ins[want].kids # B.toks[2].kids THEN "children"
         ELSE IF D.ih # B.ih THEN "inline_html"
         ELSE "ok"

(* C16 - a reference link / image is exactly the inline form with the same text, destination, title.
   base = parse of the inline form, der = parse of the reference form (first paragraph compared). *)
RefFormLaw ==
    LET bi == InlineOf(Tr.base.toks) di == InlineOf(Tr.der.toks) IN
    IF bi = <<>> \/ di = <<>> THEN "skip:no_inline_token"
    ELSE IF Tr.a.blinks = 0 /\ Tr.a.dlinks = 0 THEN "skip:neither_form_is_a_link"
    ELSE IF bi[1].kids # di[1].kids THEN "children"
    ELSE "ok"

-----------------------------------------------------------------------------
Verdict == CASE Tr.op = "quote" -> QuoteLaw
             [] Tr.op = "list" -> ListLaw
             [] Tr.op = "concat" -> ConcatLaw
             [] Tr.op \in {"eol", "nul", "tabs_lead", "tabs_all"} -> EncodingLaw
             [] Tr.op = "inline_mode" -> InlineModeLaw
             [] Tr.op = "embed" -> EmbedLaw
             [] Tr.op = "refform" -> RefFormLaw
             [] OTHER -> "harness:unknown_law"

Consume == /\ l' = l + 1 /\ verdict' = Verdict /\ UNCHANGED <<tid, done>>
Finish == /\ PrintT(<<"V", tid, verdict, l>>) /\ done' = TRUE /\ UNCHANGED <<tid, l, verdict>>
TraceInit == tid \in 1..Len(Traces) /\ l = 1 /\ verdict = "ok" /\ done = FALSE
TraceNext == /\ ~done
             /\ IF verdict # "ok" \/ l > 1 THEN Finish ELSE Consume
TraceSpec == TraceInit /\ [][TraceNext]_tvars
=============================================================================
