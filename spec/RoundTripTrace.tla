---------------------------- MODULE RoundTripTrace ----------------------------
(***************************************************************************)
(* C15 trace specification.  Trace: val0 / html of the stream as parsed,   *)
(* n (tokens in the top-level stream), and one event per operation of      *)
(* RoundTrip.tla executed on the real stream:                              *)
(*  [op |-> "rt", raised, eq, val0, html]                                  *)
(*  [op |-> "tree", ok, ids, walk, total, nodes]                           *)
(*       ids   index of each token of to_tokens() in the original stream   *)
(*       walk  pre-order index of each walked node's first token           *)
(*       nodes per node <<id, parent, prev, next, kids>> (0 = none)        *)
(*  [op |-> "render", html, val0]                                          *)
(***************************************************************************)
EXTENDS Integers, Sequences, FiniteSets, TLC, Json, IOUtils

VARIABLES tid, l, verdict, done
tvars == <<tid, l, verdict, done>>
Data   == JsonDeserialize(IOEnv.TRACE_FILE)
Traces == Data.traces
Tr     == Traces[tid]
Ev     == Tr.ev

NodeOf(ns, id) == ns[CHOOSE k \in DOMAIN ns : ns[k][1] = id]
LinksOK(ns) ==
    \A k \in DOMAIN ns :
       LET n == ns[k] kids == n[5] IN
       \A j \in DOMAIN kids :
          LET c == NodeOf(ns, kids[j]) IN
          /\ c[2] = n[1]                                                 \* child.parent is the node
          /\ c[3] = (IF j = 1 THEN 0 ELSE kids[j - 1])                   \* previous_sibling
          /\ c[4] = (IF j = Len(kids) THEN 0 ELSE kids[j + 1])           \* next_sibling

Increasing(s) == \A k \in 1..(Len(s) - 1) : s[k] < s[k + 1]

Check(e) ==
    CASE e.op = "rt" ->
            IF e.raised = 1 THEN "roundtrip_raised"
            ELSE IF e.eq # 1 THEN "roundtrip_not_equal"
            ELSE IF e.val0 # Tr.val0 THEN "value_changed"
            ELSE IF e.html # Tr.html THEN "renders_differently" ELSE "ok"
      [] e.op = "tree" ->
            IF e.ok # 1 THEN "tree_not_constructible"
            ELSE IF e.ids # [k \in 1..Tr.n |-> k] THEN "flatten_differs"
            ELSE IF ~Increasing(e.walk) \/ Len(e.walk) # e.total THEN "walk_order"
            ELSE IF ~LinksOK(e.nodes) THEN "links_inconsistent" ELSE "ok"
      [] e.op = "render" ->
            IF e.html # Tr.html THEN "render_not_repeatable"
            ELSE IF e.val0 # Tr.val0 THEN "render_changed_tokens" ELSE "ok"

Consume == /\ l' = l + 1 /\ verdict' = Check(Ev[l]) /\ UNCHANGED <<tid, done>>
Finish == /\ PrintT(<<"V", tid, verdict, l>>) /\ done' = TRUE /\ UNCHANGED <<tid, l, verdict>>
TraceInit == tid \in 1..Len(Traces) /\ l = 1 /\ verdict = "ok" /\ done = FALSE
TraceNext == /\ ~done
             /\ IF verdict # "ok" \/ l > Len(Ev) THEN Finish ELSE Consume
TraceSpec == TraceInit /\ [][TraceNext]_tvars
=============================================================================
