------------------------------ MODULE MCUrlGen ------------------------------
EXTENDS UrlGen
Colon == <<":", "&colon;", "&#58;", "&#x3a;", "&#x3A;", "\\:", "%3A", "&#58", "&#0058;">>
ImgTail == <<"", "image/png;", "image/webp;x,">>      \* what the data: whitelist looks for, after another scheme
MCLeads == <<"", " ", "\t", "&#x1;", "&Tab;", "&NewLine;", "{u+00a0}", "{u+feff}", "&#32;", "%20", "&#9;", "\\ ">>
MCLeadsQ == <<"", " ", "&#x1;", "&Tab;", "&NewLine;", "{u+00a0}", "&#32;">>
MCSchemes == <<
  << <<"java", "JAVA", "JaVa", "&#106;ava", "&#x6A;ava", "j&#97;va", "\\java", "j\\ava">>,
     <<"script", "SCRIPT", "sCrIpT", "scr&Tab;ipt", "scr&NewLine;ipt", "scr&#10;ipt", "scr&#x9;ipt", "&#115;cript">>, Colon, ImgTail >>,
  << <<"vb", "VB", "&#118;b">>, <<"script", "SCRIPT", "scr&Tab;ipt", "&#x73;cript">>, Colon, ImgTail >>,
  << <<"file", "FILE", "fIlE", "&#102;ile", "fi&#x6c;e", "f\\ile">>, Colon, <<"///", "//x/", "", "image/gif;/../x", "image/png;">> >>,
  << <<"data", "DATA", "dAtA", "&#100;ata", "d&#x61;ta">>, Colon,
     <<"text/html;", "text/html,", "image/svg+xml;", "image/png;", "IMAGE/PNG;", "image/gif;", "image/jpeg;",
       "image/webp;", "image/png", "text/html;image/png;", "image/png&semi;", "image/x-png;", ";", "",
       "text/html;data:image/png;base64,", "text/html,<!--data:image/gif;-->", "application/x;data:image/webp;", "x,data:image/jpeg;">> >>,
  << <<"http", "HTTP", "https", "mailto", "ftp", "tel", "x-javascript", "javascripts", "java-script">>, Colon, <<"//x.y/", "">> >>,
  << <<"", "/", "./", "#", "?", "//">>, <<"javascript", "a b", "a%20b", "{u+00e9}", "%", "%zz", "[x]", "a\\)b", "&amp;">>, <<":", "">> >>,
  \* e-mail shaped destinations (autolink producer: the mailto: form) and characters outside the URL-safe set
  << <<"a{b}", "x^y", "f|l", "50%", "a`b", "q%zz", "{u+00e9}", "a+b", "A.B", "%41", "a\\b">>, <<"@">>,
     <<"example.com", "xn--bcher-kva.example", "b{u+00fc}cher.example", "x.y">>, <<"", "?s={t}">> >>,
  << <<"http", "mailto", "irc">>, <<":">>, <<"//x.y/", "">>, <<"a{b}", "x^y|z", "`", "{u+00e9}{u+1f600}", "%", "%4", "%zz%41", "a\\b", "\"">> >>
>>
MCPayloads == <<"alert(1)", "x", "">>
=============================================================================
