---------------------------------- MODULE Cost ----------------------------------
(***************************************************************************)
(* C20 (guard discipline): the cost of the inline parser on bracket        *)
(* strings, as a function computed by the specification.                   *)
(*                                                                         *)
(* Model of ParserInline.tokenize / skipToken / parseLinkLabel on strings  *)
(* over "[" "]" "a" (no "(...)" follows, so the link rule always fails     *)
(* after scanning for its label - the pathological case):                  *)
(*   Tokenize  at every "[" the link rule runs parseLinkLabel              *)
(*   Label     scans forward with skipToken until the matching "]"         *)
(*   Skip      the position cache (state.cache) answers repeated           *)
(*             positions; at level >= MaxNesting it jumps to the end       *)
(*             (and that answer is cached as well)                         *)
(* `work` counts Skip evaluations and Label loop iterations.  With the     *)
(* cache the work is linear in the length for every string; with           *)
(* UseCache = FALSE (or with the bail-out not cached, CacheBailOut =       *)
(* FALSE) TLC finds the super-linear witness.                              *)
(***************************************************************************)
EXTENDS Integers, Sequences, FiniteSets, TLC

CONSTANTS N, MaxNesting, UseCache, CacheBailOut, K

VARIABLES s, work
vars == <<s, work>>

RECURSIVE Skip(_, _, _, _), Scan(_, _, _, _, _, _)

(* returns [end, cache, work] ; cache is a function 1..N -> Nat (0 = absent) *)
Skip(str, pos, level, st) ==
    IF UseCache /\ st.cache[pos] # 0
    THEN [end |-> st.cache[pos], cache |-> st.cache, work |-> st.work + 1]
    ELSE IF level < MaxNesting
         THEN LET r == IF str[pos] = "[" THEN Scan(str, pos + 1, 1, level + 1, [st EXCEPT !.work = @ + 1], pos)
                       ELSE [st EXCEPT !.work = @ + 1]
              IN [end |-> pos + 1, cache |-> [r.cache EXCEPT ![pos] = pos + 1], work |-> r.work]
         ELSE [end |-> Len(str) + 1,
               cache |-> IF CacheBailOut THEN [st.cache EXCEPT ![pos] = Len(str) + 1] ELSE st.cache,
               work |-> st.work + 1]

(* parseLinkLabel's loop from p with bracket depth d; returns [cache, work] *)
Scan(str, p, d, level, st, start) ==
    IF p > Len(str) THEN st
    ELSE IF str[p] = "]" /\ d = 1 THEN [st EXCEPT !.work = @ + 1]         \* label closed
    ELSE LET r  == Skip(str, p, level, [st EXCEPT !.work = @ + 1])
             d2 == IF str[p] = "]" THEN d - 1
                   ELSE IF str[p] = "[" /\ r.end = p + 1 THEN d + 1 ELSE d
         IN Scan(str, r.end, d2, level, [cache |-> r.cache, work |-> r.work], start)

RECURSIVE Tokenize(_, _, _)
Tokenize(str, pos, st) ==
    IF pos > Len(str) THEN st.work
    ELSE IF str[pos] = "["
         THEN Tokenize(str, pos + 1, Scan(str, pos + 1, 1, 0, [st EXCEPT !.work = @ + 1], pos))
         ELSE Tokenize(str, pos + 1, [st EXCEPT !.work = @ + 1])

Work(str) == Tokenize(str, 1, [cache |-> [k \in 1..Len(str) |-> 0], work |-> 0])

Strings == UNION {[1..n -> {"[", "]", "a"}] : n \in 1..N}
Init == s \in Strings /\ work = Work(s)
Next == UNCHANGED vars
Spec == Init /\ [][Next]_vars

WorkLinear == work <= K * Len(s)
=============================================================================
