----------------------------- MODULE MCConfigGen -----------------------------
EXTENDS ConfigGen
Rules == {"table", "strikethrough", "code", "fence", "blockquote", "hr", "list", "reference", "html_block",
          "heading", "lheading", "newline", "escape", "backticks", "emphasis", "link", "image", "autolink",
          "html_inline", "entity", "replacements", "smartquotes"}
Opts == {<<"html", "T">>, <<"html", "F">>, <<"typographer", "T">>, <<"breaks", "T">>, <<"xhtmlOut", "T">>,
         <<"xhtmlOut", "F">>, <<"langPrefix", "">>, <<"langPrefix", "x\"<">>, <<"quotes", "q4">>,
         <<"quotes", "qlist">>, <<"quotes", "qempty">>, <<"maxNesting", "1">>, <<"maxNesting", "2">>, <<"maxNesting", "5">>,
         <<"inline_definitions", "T">>, <<"store_labels", "T">>}
=============================================================================
