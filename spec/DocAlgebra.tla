------------------------------ MODULE DocAlgebra ------------------------------
(***************************************************************************)
(* The algebra of document operations behind C06/C07 (and the generator of *)
(* operation sequences replayed on the real parser).                       *)
(*                                                                         *)
(* Abstract state: the number of lines of the document and its abstract    *)
(* parse, a sequence of [n (nesting), lv (level), b, e (map or -1)].       *)
(* Operations and their PREDICTED effect on the abstract parse:            *)
(*   Quote          bq_open ++ Lift(parse, 1) ++ bq_close                  *)
(*   ListWrap(m,w)  list_open, item_open ++ Lift(parse, 2) ++ closes       *)
(*   ConcatLeaf     parse ++ Shift(<<leaf>>, lines + 1)  (a one-line       *)
(*                  paragraph after a blank line)                          *)
(* TLC checks that every operation sequence keeps the abstract parse well  *)
(* formed in the sense of C02/C03 (so the laws are consistent with those   *)
(* properties) and that Lift and Shift commute; `ops` is the exported      *)
(* operation sequence, replayed on real documents by the harness and       *)
(* validated law by law against DocAlgebraTrace.tla.                       *)
(***************************************************************************)
EXTENDS Integers, Sequences, FiniteSets, TLC, Json

CONSTANTS Markers,   \* sequence of list markers: [m |-> string, ordered |-> 0/1, num |-> Nat]
          MaxDepth,  \* number of operations
          MaxLeaves  \* blocks in the seed (abstract)

VARIABLES lines, parse, ops
vars == <<lines, parse, ops>>

Leaf(b) == <<[n |-> 1, lv |-> 0, b |-> b, e |-> b + 1], [n |-> 0, lv |-> 1, b |-> b, e |-> b + 1],
             [n |-> -1, lv |-> 0, b |-> -1, e |-> -1]>>
Lift(ts, d)  == [i \in DOMAIN ts |-> [ts[i] EXCEPT !.lv = @ + d]]
Shift(ts, k) == [i \in DOMAIN ts |-> IF ts[i].b < 0 THEN ts[i] ELSE [ts[i] EXCEPT !.b = @ + k, !.e = @ + k]]
Open(b, e, lv)  == [n |-> 1, lv |-> lv, b |-> b, e |-> e]
Close(lv) == [n |-> -1, lv |-> lv, b |-> -1, e |-> -1]

Init == /\ \E k \in 1..MaxLeaves : /\ lines = 2 * k
                                    /\ parse = IF k = 1 THEN Leaf(0) ELSE Leaf(0) \o Leaf(2)
        /\ ops = <<>>

Quote == /\ parse' = <<Open(0, lines, 0)>> \o Lift(parse, 1) \o <<Close(0)>>
         /\ ops' = Append(ops, [op |-> "quote"])
         /\ UNCHANGED lines

ListWrap(k, w) ==
    /\ parse' = <<Open(0, lines, 0), Open(0, lines, 1)>> \o Lift(parse, 2) \o <<Close(1), Close(0)>>
    /\ ops' = Append(ops, [op |-> "list", marker |-> Markers[k].m, ordered |-> Markers[k].ordered,
                           num |-> Markers[k].num, w |-> w])
    /\ UNCHANGED lines

ConcatLeaf == /\ parse' = parse \o Shift(Leaf(0), lines + 1)
              /\ lines' = lines + 2
              /\ ops' = Append(ops, [op |-> "concat_leaf"])

Next == /\ Len(ops) < MaxDepth
        /\ PrintT(ToJson(ops))
        /\ \/ Quote \/ ConcatLeaf
           \/ \E k \in DOMAIN Markers, w \in 1..4 : ListWrap(k, w)
Last == PrintT(ToJson(ops))       \* states at the depth bound are exported by the constraint below
Spec == Init /\ [][Next]_vars

-----------------------------------------------------------------------------
(* well-formedness of the predicted parses (C02 / C03 on the abstract stream) *)
RECURSIVE DepthAt(_, _)
DepthAt(ts, i) == IF i = 0 THEN 0
                  ELSE DepthAt(ts, i - 1) + (IF ts[i].n = 1 THEN 1 ELSE IF ts[i].n = -1 THEN -1 ELSE 0)
LevelsAreDepths ==
    \A i \in DOMAIN parse :
        parse[i].lv = (IF parse[i].n = -1 THEN DepthAt(parse, i) ELSE DepthAt(parse, i - 1))
Balanced == DepthAt(parse, Len(parse)) = 0 /\ \A i \in DOMAIN parse : DepthAt(parse, i) >= 0
MapsInRange == \A i \in DOMAIN parse : parse[i].b >= 0 => (0 <= parse[i].b /\ parse[i].b < parse[i].e /\ parse[i].e <= lines)
LiftShiftCommute == Lift(Shift(parse, 3), 2) = Shift(Lift(parse, 2), 3)
=============================================================================
