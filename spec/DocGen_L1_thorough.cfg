CONSTANTS
  Alphabet <- L1
  Core <- L1Core
  MaxAll = 3
  MaxCore = 5
  Wrappers <- NoWrap
  MaxWrap = 0
  MaxDeep = 0
SPECIFICATION Spec
INVARIANT Bounded
INVARIANT Shape
INVARIANT WrapsOK
CHECK_DEADLOCK FALSE
