CONSTANTS
  MaxTok = 6
  Relevel = TRUE
  SameContext = TRUE
SPECIFICATION Spec
INVARIANT WellFormed
INVARIANT LevelIsOpenCount
CHECK_DEADLOCK FALSE
