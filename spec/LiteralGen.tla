------------------------------ MODULE LiteralGen ------------------------------
(***************************************************************************)
(* Generator of the texts t of C09: every sequence of alphabet code points *)
(* up to MaxAll, and of Core code points up to MaxCore.  The escaped       *)
(* spellings and the documents are computed by LiteralTrace.tla itself.    *)
(***************************************************************************)
EXTENDS LiteralDefs
CONSTANTS MaxAll, MaxCore
VARIABLE t
Init == t = <<>>
AllCore(s) == \A k \in DOMAIN s : s[k] \in Core
Extend(i) == /\ \/ Len(t) < MaxAll
                \/ Len(t) < MaxCore /\ AllCore(t) /\ i \in Core
             /\ t' = Append(t, i)
Next == PrintT(ToJson(t)) /\ \E i \in DOMAIN Alphabet : Extend(i)
Spec == Init /\ [][Next]_t
=============================================================================
