--------------------------- MODULE RenderOptsTrace ---------------------------
(***************************************************************************)
(* C18 (second half): renderer-only options leave the token stream         *)
(* untouched and change the HTML only in their documented place.           *)
(* Trace: a = HTML under the reference options (xhtmlOut off, breaks off,  *)
(* langPrefix p1, no highlight), b = HTML under a variant; `flags` says    *)
(* which options differ; nsoft / nfence = number of softbreak / fence      *)
(* tokens; ta / tb = the two token streams (canonical JSON).               *)
(*                                                                         *)
(* The acceptor walks both strings in lock step (i over a, j over b).      *)
(* Equal characters advance both.  Differences are admitted only where an  *)
(* option is documented to act - TLC searches the nondeterministic walk;   *)
(* the trace is accepted iff SOME walk reaches both ends with the counts   *)
(* matching:                                                               *)
(*   xhtmlOut   " /" inserted before the ">" of a void tag (br, hr, img)   *)
(*   breaks     "<br>" (or "<br />") inserted before the line feed of a    *)
(*              soft break: exactly nsoft times                            *)
(*   langPrefix directly after `<pre><code class="`: prefix p1 in a,       *)
(*              prefix p2 in b                                             *)
(*   highlight  (hl = 1) the fence body wrapped in <mark>..</mark>;        *)
(*              (hl = 2) `<pre><code ..>` / `</code></pre>` replaced by    *)
(*              `<pre class=hl>` / `</pre>`: exactly nfence times          *)
(***************************************************************************)
EXTENDS Integers, Sequences, FiniteSets, TLC, Json, IOUtils

VARIABLES tid, i, j, verdict, done,
          ctx,      \* the last (up to 18) consumed code points of a
          tagn,     \* name of the tag of a being read (since the last "<")
          intag, nameopen,
          phase,    \* "" | "codetag" (inside `<pre><code ...`) | "codetag2" (prefix handled) | "bodystart"
          nbr, nhl, \* soft breaks / fences handled so far
          hlopen    \* inside a highlighted body

tvars == <<tid, i, j, verdict, done, ctx, tagn, intag, nameopen, phase, nbr, nhl, hlopen>>

Data   == JsonDeserialize(IOEnv.TRACE_FILE)
Traces == Data.traces
Tr     == Traces[tid]
A      == Tr.a
B      == Tr.b
F      == Tr.flags

At(s, k, w) == k + Len(w) - 1 <= Len(s) /\ SubSeq(s, k, k + Len(w) - 1) = w
EndsWith(s, w) == Len(s) >= Len(w) /\ SubSeq(s, Len(s) - Len(w) + 1, Len(s)) = w
Push(c) == IF Len(ctx) < 18 THEN Append(ctx, c) ELSE Append(Tail(ctx), c)

BR      == <<60, 98, 114, 62>>                 \* <br>
BRX     == <<60, 98, 114, 32, 47, 62>>         \* <br />
Void    == { <<98, 114>>, <<104, 114>>, <<105, 109, 103>> }    \* br hr img
PRECODE == <<60, 112, 114, 101, 62, 60, 99, 111, 100, 101>>                        \* <pre><code
CLASSQ  == <<60, 112, 114, 101, 62, 60, 99, 111, 100, 101, 32, 99, 108, 97, 115, 115, 61, 34>>  \* <pre><code class="
ENDCODE == <<60, 47, 99, 111, 100, 101, 62, 60, 47, 112, 114, 101, 62>>            \* </code></pre>
MARKO   == <<60, 109, 97, 114, 107, 62>>       \* <mark>
MARKC   == <<60, 47, 109, 97, 114, 107, 62>>   \* </mark>
PREHL   == <<60, 112, 114, 101, 32, 99, 108, 97, 115, 115, 61, 104, 108, 62>>      \* <pre class=hl>
ENDPRE  == <<60, 47, 112, 114, 101, 62>>       \* </pre>

IsNameChar(c) == (c >= 97 /\ c <= 122) \/ (c >= 48 /\ c <= 57)

(* consume one code point of a, keeping the tag tracker up to date *)
EatA(c) ==
    /\ ctx' = Push(c)
    /\ phase' = IF EndsWith(Push(c), PRECODE) THEN "codetag"
                ELSE IF phase \in {"codetag", "codetag2"} THEN (IF c = 62 THEN "bodystart" ELSE phase)
                ELSE ""
    /\ IF c = 60 THEN intag' = TRUE /\ tagn' = <<>> /\ nameopen' = TRUE
       ELSE IF c = 62 THEN intag' = FALSE /\ nameopen' = FALSE /\ tagn' = tagn
       ELSE IF nameopen /\ IsNameChar(c) THEN tagn' = Append(tagn, c) /\ UNCHANGED <<intag, nameopen>>
       ELSE nameopen' = FALSE /\ UNCHANGED <<intag, tagn>>

GSame == i <= Len(A) /\ j <= Len(B) /\ A[i] = B[j]
Same == /\ GSame
        /\ i' = i + 1 /\ j' = j + 1 /\ EatA(A[i])
        /\ UNCHANGED <<nbr, nhl, hlopen>>

XhtmlSlash ==
    /\ F.xhtml = 1 /\ i <= Len(A) /\ A[i] = 62 /\ intag /\ tagn \in Void
    /\ At(B, j, <<32, 47>>)
    /\ j' = j + 2
    /\ UNCHANGED <<i, ctx, tagn, intag, nameopen, phase, nbr, nhl, hlopen>>

SoftBreak ==
    /\ F.breaks = 1 /\ i <= Len(A) /\ A[i] = 10 /\ ~intag /\ nbr < Tr.nsoft
    /\ LET w == IF F.xhtml = 1 THEN BRX ELSE BR IN
       /\ At(B, j, w) /\ j' = j + Len(w)
    /\ nbr' = nbr + 1
    /\ UNCHANGED <<i, ctx, tagn, intag, nameopen, phase, nhl, hlopen>>

LangPrefix ==
    /\ F.lang = 1 /\ ctx = CLASSQ
    /\ At(A, i, Tr.p1) /\ At(B, j, Tr.p2)
    /\ (Tr.p1 # <<>> \/ Tr.p2 # <<>>)
    /\ phase = "codetag"
    /\ i' = i + Len(Tr.p1) /\ j' = j + Len(Tr.p2)
    /\ phase' = "codetag2"      \* a prefix is skipped at most once per class value
    /\ UNCHANGED <<ctx, tagn, intag, nameopen, nbr, nhl, hlopen>>

(* hl = 1: body wrapped in <mark> .. </mark> *)
MarkOpen ==
    /\ F.hl = 1 /\ ~hlopen /\ phase = "bodystart"
    /\ At(B, j, MARKO) /\ j' = j + Len(MARKO)
    /\ hlopen' = TRUE
    /\ phase' = ""
    /\ UNCHANGED <<i, ctx, tagn, intag, nameopen, nbr, nhl>>
MarkClose ==
    /\ F.hl = 1 /\ hlopen /\ At(A, i, ENDCODE) /\ At(B, j, MARKC)
    /\ j' = j + Len(MARKC) /\ hlopen' = FALSE /\ nhl' = nhl + 1
    /\ UNCHANGED <<i, ctx, tagn, intag, nameopen, phase, nbr>>

(* hl = 2: the highlighter returns its own <pre ..> wrapper *)
PreOpen ==
    /\ F.hl = 2 /\ ~hlopen /\ At(A, i, PRECODE) /\ At(B, j, PREHL)
    /\ \E k \in (i + Len(PRECODE))..Len(A) :
          /\ A[k] = 62 /\ \A m \in (i + Len(PRECODE))..(k - 1) : A[m] # 62
          /\ i' = k + 1
    /\ j' = j + Len(PREHL) /\ hlopen' = TRUE /\ ctx' = <<>> /\ intag' = FALSE /\ tagn' = <<>> /\ nameopen' = FALSE /\ phase' = ""
    /\ UNCHANGED <<nbr, nhl>>
PreClose ==
    /\ F.hl = 2 /\ hlopen /\ At(A, i, ENDCODE) /\ At(B, j, ENDPRE)
    /\ i' = i + Len(ENDCODE) /\ j' = j + Len(ENDPRE) /\ hlopen' = FALSE /\ nhl' = nhl + 1
    /\ ctx' = <<>> /\ intag' = FALSE /\ tagn' = <<>> /\ nameopen' = FALSE /\ phase' = ""
    /\ UNCHANGED nbr

GXhtml == F.xhtml = 1 /\ i <= Len(A) /\ A[i] = 62 /\ intag /\ tagn \in Void /\ At(B, j, <<32, 47>>)
GSoft  == F.breaks = 1 /\ i <= Len(A) /\ A[i] = 10 /\ ~intag /\ nbr < Tr.nsoft
          /\ At(B, j, IF F.xhtml = 1 THEN BRX ELSE BR)
GLang  == F.lang = 1 /\ phase = "codetag" /\ ctx = CLASSQ /\ At(A, i, Tr.p1) /\ At(B, j, Tr.p2) /\ (Tr.p1 # <<>> \/ Tr.p2 # <<>>)
GMarkO == F.hl = 1 /\ ~hlopen /\ phase = "bodystart" /\ At(B, j, MARKO)
GMarkC == F.hl = 1 /\ hlopen /\ At(A, i, ENDCODE) /\ At(B, j, MARKC)
GPreO  == /\ F.hl = 2 /\ ~hlopen /\ At(A, i, PRECODE) /\ At(B, j, PREHL)
          /\ \E k \in (i + Len(PRECODE))..Len(A) : A[k] = 62
GPreC  == F.hl = 2 /\ hlopen /\ At(A, i, ENDCODE) /\ At(B, j, ENDPRE)
CanWalk == GSame \/ GXhtml \/ GSoft \/ GLang \/ GMarkO \/ GMarkC \/ GPreO \/ GPreC

Walk == Same \/ XhtmlSlash \/ SoftBreak \/ LangPrefix \/ MarkOpen \/ MarkClose \/ PreOpen \/ PreClose

AtEnd == i > Len(A) /\ j > Len(B)
EndVerdict ==
    IF Tr.ta # Tr.tb THEN "tokens_differ"
    ELSE IF ~AtEnd THEN "html_differs_outside_documented_place"
    ELSE IF hlopen THEN "html_differs_outside_documented_place"
    ELSE IF F.breaks = 1 /\ nbr # Tr.nsoft THEN "soft_break_count"
    ELSE IF F.hl # 0 /\ nhl # Tr.nfence THEN "highlight_count"
    ELSE "ok"

Step == /\ ~done /\ verdict = "ok" /\ Tr.ta = Tr.tb /\ Walk /\ UNCHANGED <<tid, verdict, done>>

(* every walk that can go no further reports where it stands; the harness accepts the trace iff some
   walk reports "ok" *)
Report == /\ ~done
          /\ (AtEnd \/ ~CanWalk \/ Tr.ta # Tr.tb)
          /\ PrintT(<<"V", tid, EndVerdict, i>>)
          /\ done' = TRUE
          /\ UNCHANGED <<tid, i, j, verdict, ctx, tagn, intag, nameopen, phase, nbr, nhl, hlopen>>

TraceInit == /\ tid \in 1..Len(Traces) /\ i = 1 /\ j = 1 /\ verdict = "ok" /\ done = FALSE
             /\ ctx = <<>> /\ tagn = <<>> /\ intag = FALSE /\ nameopen = FALSE /\ phase = "" /\ nbr = 0 /\ nhl = 0 /\ hlopen = FALSE
TraceNext == Step \/ Report
TraceSpec == TraceInit /\ [][TraceNext]_tvars
=============================================================================
