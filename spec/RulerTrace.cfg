CONSTANTS
  Names = {"a"}
  Ghost = {"zz"}
  Chains = {"p"}
  MaxRules = 1000
  MaxFn = 100000
  MaxArgs = 1
  MaxDepth = 1000
  Variant = "head"
SPECIFICATION TraceSpec
INVARIANT TraceCoherent
INVARIANT TraceFnsDistinct
CHECK_DEADLOCK FALSE
