CONSTANTS
  Classes <- MCClassesQ
  MaxR = 1
  MaxD = 2
  DefKinds <- MCKindsQ
  DDefKinds <- MCDKinds
  MaxSpell = 2
SPECIFICATION Spec
INVARIANT RecordedOnce
INVARIANT FirstWins
INVARIANT SecondSeedingOnlyDuplicates
CHECK_DEADLOCK FALSE
