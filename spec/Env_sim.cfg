CONSTANTS
  Classes <- MCClasses
  MaxR = 3
  MaxD = 4
  DefKinds <- MCKinds
  DDefKinds <- MCDKinds
  MaxSpell = 4
SPECIFICATION Spec
INVARIANT RecordedOnce
INVARIANT FirstWins
CHECK_DEADLOCK FALSE
