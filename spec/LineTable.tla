------------------------------ MODULE LineTable ------------------------------
(***************************************************************************)
(* The one-pass scanner of StateBlock.__init__ as a state machine (one     *)
(* step per character), checked by TLC against the declarative definition  *)
(* of the line table (LineTableDefs!Table) for ALL strings up to MaxLen     *)
(* over Alpha.  See LineTableDefs.tla.                                      *)
(***************************************************************************)
EXTENDS LineTableDefs

CONSTANTS Alpha, MaxLen,
          ScanTab     \* tab stop used by the scanner: 4 (8 = the deliberately wrong variant, vacuity guard)
VARIABLES src, pos, found, indent, offset, start, tab, fin
svars == <<src, pos, found, indent, offset, start, tab, fin>>

Strings == UNION {[1..n -> Alpha] : n \in 0..MaxLen}

ScanInit == /\ src \in Strings /\ pos = 0 /\ found = FALSE /\ indent = 0 /\ offset = 0 /\ start = 0
            /\ tab = <<>> /\ fin = FALSE

(* one iteration of `for pos, character in enumerate(self.src)` *)
ScanChar ==
    /\ ~fin /\ pos < Len(src)
    /\ LET c == At(src, pos) IN
       IF ~found /\ c \in Blank THEN             \* still inside the indentation: count and `continue`
           /\ indent' = indent + 1
           /\ offset' = IF c = 9 THEN offset + ScanTab - (offset % ScanTab) ELSE offset + 1
           /\ UNCHANGED <<found, start, tab>>
       ELSE IF c = 10 \/ pos = Len(src) - 1 THEN \* end of a line (or of the input)
           LET e == IF c # 10 THEN pos + 1 ELSE pos IN
           /\ tab' = Append(tab, [b |-> start, e |-> e, ts |-> indent, sc |-> offset])
           /\ found' = FALSE /\ indent' = 0 /\ offset' = 0 /\ start' = e + 1
       ELSE /\ found' = TRUE /\ UNCHANGED <<indent, offset, start, tab>>
    /\ pos' = pos + 1
    /\ UNCHANGED <<src, fin>>

(* "Push fake entry to simplify cache bounds checks" *)
ScanEnd ==
    /\ ~fin /\ pos = Len(src)
    /\ tab' = Append(tab, [b |-> Len(src), e |-> Len(src), ts |-> 0, sc |-> 0])
    /\ fin' = TRUE
    /\ UNCHANGED <<src, pos, found, indent, offset, start>>

ScanNext == ScanChar \/ ScanEnd
ScanSpec == ScanInit /\ [][ScanNext]_svars

ScanRefinesTable == fin => tab = Table(src)
(* facts the block rules rely on *)
TableWellFormed ==
    fin => /\ \A k \in 1..Len(tab) : tab[k].b + tab[k].ts <= tab[k].e /\ tab[k].sc >= tab[k].ts
           /\ \A k \in 1..(Len(tab) - 1) : tab[k + 1].b >= tab[k].e
           /\ \A k \in 1..(Len(tab) - 2) : At(src, tab[k].e) = 10 /\ tab[k + 1].b = tab[k].e + 1
=============================================================================
