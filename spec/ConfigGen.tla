------------------------------ MODULE ConfigGen ------------------------------
(***************************************************************************)
(* Generator of configurations (C01-C05, C08, C10, C15, C17-C19): each     *)
(* preset, then histories of enable/disable of OPTIONAL rules and option   *)
(* assignments, up to a depth bound.  A configuration is exported as       *)
(*   [preset, on (rules enabled on top), off (rules disabled), opts]       *)
(* The optional set is the one the quantifier of C01 lists (the post-processing rules
   balance_pairs / fragments_join are not in it: without fragments_join levels are not recomputed).
   "Supported" (C01): the fallback rules that guarantee progress (block    *)
(* paragraph, inline text) and the core pipeline (normalize, block,        *)
(* inline, text_join) are never switched off - they are not in the         *)
(* optional set, and the invariant states it.                              *)
(***************************************************************************)
EXTENDS Integers, Sequences, FiniteSets, TLC, Json

CONSTANTS Presets, OptionalRules, OptChoices, MaxToggles, MaxOpts

VARIABLES preset, on, off, opts

vars == <<preset, on, off, opts>>

Mandatory == {"paragraph", "text", "normalize", "block", "inline", "text_join"}

Init == /\ preset \in Presets /\ on = {} /\ off = {} /\ opts = {}

EnableRule(r)  == /\ r \notin on /\ r \notin off /\ Cardinality(on \cup off) < MaxToggles
                  /\ on' = on \cup {r} /\ UNCHANGED <<preset, off, opts>>
DisableRule(r) == /\ r \notin on /\ r \notin off /\ Cardinality(on \cup off) < MaxToggles
                  /\ off' = off \cup {r} /\ UNCHANGED <<preset, on, opts>>
SetOpt(kv)     == /\ \A x \in opts : x[1] # kv[1] /\ Cardinality(opts) < MaxOpts
                  /\ opts' = opts \cup {kv} /\ UNCHANGED <<preset, on, off>>

Export == PrintT(ToJson([preset |-> preset, on |-> on, off |-> off, opts |-> opts]))

Next == Export /\ \/ \E r \in OptionalRules : EnableRule(r) \/ DisableRule(r)
                  \/ \E kv \in OptChoices : SetOpt(kv)
Spec == Init /\ [][Next]_vars

Supported == (on \cup off) \cap Mandatory = {}
=============================================================================
