CONSTANTS
  MaxTok = 6
  Relevel = TRUE
  SameContext = FALSE
SPECIFICATION Spec
INVARIANT WellFormed
INVARIANT LevelIsOpenCount
CHECK_DEADLOCK FALSE
