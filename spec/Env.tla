--------------------------------- MODULE Env ---------------------------------
(***************************************************************************)
(* C16: the reference-definition store carried in env, and the generator   *)
(* of definition scripts.                                                  *)
(*                                                                         *)
(* Store: refs (label class -> first definition) and dups (later           *)
(* definitions, in order).  Define is first-wins.  A script is a sequence  *)
(* of items - definitions and uses of label classes, each written in one   *)
(* of the spellings of its class - split into a definition block R and a   *)
(* document D; `hist` says how env is obtained: "fresh" (R and D in one    *)
(* go), "seeded" (parse R, then D with the same env) or "twice" (R parsed  *)
(* twice into the env, then D).                                            *)
(* Label classes (constants): spellings inside a class differ by case      *)
(* (Unicode case folding) and by the spelling of internal white space;     *)
(* spellings of different classes must not match.                          *)
(***************************************************************************)
EXTENDS Integers, Sequences, FiniteSets, TLC, Json

CONSTANTS Classes,     \* sequence of label classes; a class is a sequence of spellings (strings)
          MaxR, MaxD,  \* bounds on the number of items of R and D
          DefKinds,    \* sequence of definition layouts: "one" | "title" | "nextline" (destination and title
                       \* on their own lines) | "multiline" (title over two lines) | "bsline" (a backslash
                       \* before the line break inside the title) | "lfref" (a line-feed character reference in the title)
          DDefKinds,   \* layouts of definitions inside the document D: "one", and definitions inside containers -
                       \* "quoted" (in a block quote), "quotedtitle" (title on a second quoted line), "lazytitle" /
                       \* "lazydest" (title / destination on a lazy continuation line without the quote marker),
                       \* "listed" (in a list item, title on an indented line), "listlazy" (title on a lazy line)
          MaxSpell     \* spellings per class used by the exhaustive configurations

VARIABLES R, D, hist, phase,
          refs, dups, n      \* the store after processing, and the number of definitions processed

vars == <<R, D, hist, phase, refs, dups, n>>

Item(k, c, s, kind) == [k |-> k, c |-> c, s |-> s, kind |-> kind]

(* first-wins store, as a pure function over a sequence of [c, id] definitions *)
RECURSIVE Fold(_, _, _)
Fold(defs, rf, dp) ==
    IF defs = <<>> THEN [refs |-> rf, dups |-> dp]
    ELSE LET d == Head(defs) IN
         IF \E x \in rf : x.c = d.c THEN Fold(Tail(defs), rf, Append(dp, d))
         ELSE Fold(Tail(defs), rf \cup {d}, dp)

DefsOf(items, tag) == LET ds == SelectSeq(items, LAMBDA x : x.k = "def") IN
                      [i \in DOMAIN ds |-> [c |-> ds[i].c, id |-> <<tag, i>>]]
Processed == IF hist = "twice" THEN DefsOf(R, "R") \o DefsOf(R, "R") \o DefsOf(D, "D")
             ELSE DefsOf(R, "R") \o DefsOf(D, "D")

Init == /\ R = <<>> /\ D = <<>> /\ hist \in {"fresh", "seeded", "twice"} /\ phase = "R"
        /\ refs = {} /\ dups = <<>> /\ n = 0

AddR == /\ phase = "R" /\ Len(R) < MaxR
        /\ \E c \in DOMAIN Classes, s \in 1..MaxSpell, kind \in DOMAIN DefKinds :
              s <= Len(Classes[c]) /\ R' = Append(R, Item("def", c, s, DefKinds[kind]))
        /\ UNCHANGED <<D, hist, phase>>
Switch == /\ phase = "R" /\ R # <<>> /\ phase' = "D" /\ UNCHANGED <<R, D, hist>>
AddD == /\ phase = "D" /\ Len(D) < MaxD
        /\ \E c \in DOMAIN Classes : \E s \in 1..MaxSpell : s <= Len(Classes[c]) /\
              \/ D' = Append(D, Item("use", c, s, "link"))
              \/ D' = Append(D, Item("use", c, s, "image"))
              \/ D' = Append(D, Item("use", c, s, "listlink"))   \* the use inside a list that ends in an empty item
              \/ \E kind \in DOMAIN DDefKinds : D' = Append(D, Item("def", c, s, DDefKinds[kind]))
        /\ UNCHANGED <<R, hist, phase>>

Step == (AddR \/ Switch \/ AddD)
        /\ LET f == Fold(Processed', {}, <<>>) IN refs' = f.refs /\ dups' = f.dups /\ n' = Len(Processed')
Export == (phase = "D" /\ D # <<>>) => PrintT(ToJson([R |-> R, D |-> D, hist |-> hist]))
Next == Export /\ Step
Spec == Init /\ [][Next]_vars

-----------------------------------------------------------------------------
(* every definition is recorded exactly once *)
RecordedOnce == Cardinality(refs) + Len(dups) = n
(* at most one first definition per class, and it is the first one written *)
FirstWins == /\ \A x, y \in refs : x.c = y.c => x = y
             /\ \A x \in refs : \A k \in DOMAIN Processed : Processed[k].c = x.c =>
                    \E m \in 1..k : Processed[m] = [c |-> x.c, id |-> x.id]
(* seeding twice only adds duplicates *)
SecondSeedingOnlyDuplicates ==
    hist = "twice" => Fold(DefsOf(R, "R") \o DefsOf(R, "R"), {}, <<>>).refs = Fold(DefsOf(R, "R"), {}, <<>>).refs
=============================================================================
