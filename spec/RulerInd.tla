------------------------------ MODULE RulerInd ------------------------------
(***************************************************************************)
(* Unbounded-history argument for C11 at bounded registry size: the        *)
(* conjunction IndInv is an INDUCTIVE invariant of Ruler!Next.             *)
(*   IndInit  = every type-correct state satisfying IndInv (reachable or   *)
(*              not): registries of at most MaxRules rules with distinct   *)
(*              function ids, the cache absent or equal to the compilation *)
(*              of the registry, any value of the id counter;              *)
(*   one step of Ruler!Next from each of them must satisfy IndInv again.   *)
(* Together with Init => IndInv this gives IndInv - hence AppliedIsReported*)
(* - after histories of ANY length (TLC: CONSTRAINT stops after one step). *)
(* With Variant = "as_found" the step fails (vacuity guard).               *)
(***************************************************************************)
EXTENDS Ruler

RuleRec == [name : Names, enabled : BOOLEAN, fn : 1..MaxFn, alt : SUBSET Chains]
Registries == {rs \in UNION {[1..n -> RuleRec] : n \in 0..MaxRules} :
                 \A i, j \in DOMAIN rs : i # j => rs[i].fn # rs[j].fn}

IndInv == TypeOK /\ FnsDistinct /\ Coherent /\ AppliedIsReported /\ CompileIsReported

IndInit == /\ rules \in Registries
           /\ cache \in {Invalid, [valid |-> TRUE, ch |-> Compile(rules)]}
           /\ nextFn \in {k \in 1..MaxFn : \A i \in DOMAIN rules : rules[i].fn < k} \cup {MaxFn + 1}
           /\ ret = [out |-> "init"]
           /\ hist = <<>>
IndSpec == IndInit /\ [][Next]_vars
OneStep == Len(hist) <= 1
=============================================================================
