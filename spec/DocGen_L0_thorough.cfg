CONSTANTS
  Alphabet <- L0
  Core <- L0Core
  Mid <- L0Core
  MaxAll = 4
  MaxMid = 5
  MaxCore = 5
  Wrappers <- NoWrap
  MaxWrap = 0
  MaxDeep = 0
  DeepWraps = 0
SPECIFICATION Spec
INVARIANT Bounded
INVARIANT Shape
INVARIANT WrapsOK
CHECK_DEADLOCK FALSE
