------------------------- MODULE LazyCompileTrace -------------------------
(***************************************************************************)
(* Trace specification for C13.  One trace = one scheduled execution of    *)
(* several parse/render calls on ONE real MarkdownIt instance (threads     *)
(* under a deterministic scheduler, or a call re-entered from a render     *)
(* rule / core rule).  Events, in global execution order:                  *)
(*   [ev |-> "getrules", t, r, c, fns]  a Ruler.getRules call of thread t  *)
(*                                      returned the list fns (ids)        *)
(*   [ev |-> "ret", t, res]             the API call of t returned res     *)
(*   [ev |-> "exc", t, res]             ... raised (res = exception type)  *)
(*   [ev |-> "budget", t]               ... exceeded its step budget       *)
(* The trace carries `full` (the complete chain of every ruler/chain,      *)
(* taken from an untouched twin instance) and `solo` (what each call       *)
(* returns when run alone).                                                *)
(*                                                                         *)
(* This is the observable projection of LazyCompile.tla under its          *)
(* invariants NoPartialView / PublishedIsComplete: every list returned by  *)
(* getRules is complete at the moment it is returned (G2), and every call  *)
(* yields its solo result.  Only call-observable facts are constrained, so *)
(* a lock-based repair is accepted as well.                                *)
(***************************************************************************)
EXTENDS Integers, Sequences, FiniteSets, TLC, Json, IOUtils

VARIABLES tid, l, verdict, done,
          finished,   \* set of threads whose call has ended
          seenChains  \* set of <<r, c>> observed complete (coverage only)

tvars == <<tid, l, verdict, done, finished, seenChains>>

Data   == JsonDeserialize(IOEnv.TRACE_FILE)
Traces == Data.traces
Tr     == Traces[tid]
Ev     == Tr.ev

Full(r, c) ==
    LET S == {i \in DOMAIN Tr.full : Tr.full[i][1] = r /\ Tr.full[i][2] = c}
    IN IF S = {} THEN <<>> ELSE Tr.full[CHOOSE i \in S : TRUE][3]

Check(e) ==
    IF e.t \in finished THEN "event_after_return"
    ELSE IF e.ev = "getrules" THEN (IF e.fns = Full(e.r, e.c) THEN "ok" ELSE "partial_chain")
    ELSE IF e.ev = "budget" THEN "no_progress"
    ELSE IF e.ev \in {"ret", "exc"} THEN
         (IF e.ev = Tr.solo[e.t].ev /\ e.res = Tr.solo[e.t].res THEN "ok" ELSE "result_differs_from_solo")
    ELSE "unknown_event"

Consume ==
    LET e == Ev[l] IN
    /\ l' = l + 1
    /\ verdict' = Check(e)
    /\ finished' = IF e.ev \in {"ret", "exc", "budget"} THEN finished \cup {e.t} ELSE finished
    /\ seenChains' = IF e.ev = "getrules" THEN seenChains \cup {<<e.r, e.c>>} ELSE seenChains
    /\ UNCHANGED <<tid, done>>

(* at the end every call must have ended *)
Finish ==
    /\ PrintT(<<"V", tid, IF verdict = "ok" /\ Cardinality(finished) # Len(Tr.solo)
                          THEN "call_never_returned" ELSE verdict, l>>)
    /\ done' = TRUE
    /\ UNCHANGED <<tid, l, verdict, finished, seenChains>>

TraceInit == /\ tid \in 1..Len(Traces) /\ l = 1 /\ verdict = "ok" /\ done = FALSE
             /\ finished = {} /\ seenChains = {}

TraceNext == /\ ~done
             /\ IF verdict # "ok" \/ l > Len(Ev) THEN Finish ELSE Consume

TraceSpec == TraceInit /\ [][TraceNext]_tvars
=============================================================================
