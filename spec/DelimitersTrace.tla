-------------------------- MODULE DelimitersTrace --------------------------
(***************************************************************************)
(* Validates recorded calls of the real processDelimiters                  *)
(* (rules_inline/balance_pairs.py) against DelimitersDefs: for the         *)
(* delimiter list the call received, the list it left behind must equal    *)
(* Opt(in) - the transcription of the code - and Naive(in) - the reference *)
(* pairing.  Trace: [calls |-> << [in |-> <<d>>, out |-> <<d>>] >>] with   *)
(* d = <<marker, length, token, end, open, close>> (flags as 0/1).         *)
(* Verdicts: "pairing_differs_from_reference" / "pairing_differs_from_     *)
(* transcription" (with the index of the call), "ok".                      *)
(***************************************************************************)
EXTENDS DelimitersDefs, Json, IOUtils

VARIABLES tid, l, verdict, done
tvars == <<tid, l, verdict, done>>
Data   == JsonDeserialize(IOEnv.TRACE_FILE)
Traces == Data.traces
Calls  == Traces[tid].calls

Rec(x) == [m |-> x[1], len |-> x[2], tok |-> x[3], end |-> x[4], open |-> x[5] = 1, close |-> x[6] = 1]
Recs(xs) == [k \in DOMAIN xs |-> Rec(xs[k])]

Check(c) ==
    LET in == Recs(c.in) out == Recs(c.out) IN
    IF Naive(in) # out THEN "pairing_differs_from_reference"
    ELSE IF Opt(in) # out THEN "pairing_differs_from_transcription"
    ELSE "ok"

Consume == /\ l' = l + 1 /\ verdict' = Check(Calls[l]) /\ UNCHANGED <<tid, done>>
Finish == /\ PrintT(<<"V", tid, verdict, l>>) /\ done' = TRUE /\ UNCHANGED <<tid, l, verdict>>
TraceInit == tid \in 1..Len(Traces) /\ l = 1 /\ verdict = "ok" /\ done = FALSE
TraceNext == /\ ~done
             /\ IF verdict # "ok" \/ l > Len(Calls) THEN Finish ELSE Consume
TraceSpec == TraceInit /\ [][TraceNext]_tvars
=============================================================================
