CONSTANTS
  Inst = {1, 2, 3}
  Presets = {"commonmark", "js-default", "zero"}
  ToggleNames = {"nosuch"}
  MaxNames = 4
  OptChoices = {}
  RRNames = {"text"}
  Docs = {"D1", "D2", "D3", "D4"}
  Defines <- MCDefines
  FaultSites = {"core", "block", "inline", "inline2", "render", "highlight"}
  MaxCtx = 100
  MaxDepth = 100000
  ChainToggleChains = {"core", "block", "inline", "inline2"}
  Variant = "head"
SPECIFICATION TraceSpec
INVARIANT TraceTypeOK
CHECK_DEADLOCK FALSE
