SPECIFICATION TraceSpec
INVARIANT StackInVocabulary
CHECK_DEADLOCK FALSE
