------------------------------- MODULE Facade -------------------------------
(***************************************************************************)
(* Exact state machine of the MarkdownIt facade (main.py): several live    *)
(* instances, each with four rule chains (core, block, inline, inline2),   *)
(* options (three write routes), render-rule table and reset_rules context *)
(* stack; the shared presets; a caller-owned shared env; user code that    *)
(* raises inside a call.                                                   *)
(*                                                                         *)
(* Serves C12 (no hidden shared state), C14 (faults leave the instance     *)
(* intact; reset_rules restores on every exit path), C10 (the three option *)
(* routes are one action) and the facade half of C11.                      *)
(*                                                                         *)
(* Rule names are the real ones; a rule is identified by "chain/name".     *)
(* `Variant` = "head" | "as_found" (pinned commit: reset_rules did not     *)
(* restore when the body raised).                                          *)
(***************************************************************************)
EXTENDS Integers, Sequences, FiniteSets, TLC, Json

CONSTANTS Inst,         \* instance ids
          Presets,      \* subset of {"commonmark", "js-default", "zero"}
          ToggleNames,  \* rule names used by enable/disable (incl. an unknown one)
          MaxNames,     \* size bound of a name set
          OptChoices,   \* set of <<key, value>> that SetOpt / options_update may write
          RRNames,      \* render-rule names add_render_rule may install
          Docs,         \* abstract probe documents
          Defines,      \* [Docs -> SUBSET Labels] reference labels a document defines
          FaultSites,   \* subset of {"core","block","inline","inline2","render","highlight","reset_body"}
          MaxCtx,       \* nesting bound of reset_rules blocks
          MaxDepth,     \* history bound
          ChainToggleChains, \* chains whose ruler API is called directly (subset of Chain)
          Variant

VARIABLES live, plug, active, opts, rr, ctx,   \* per instance
          env,                                  \* labels held by the shared env object
          hist

vars == <<live, plug, active, opts, rr, ctx, env, hist>>
view == <<live, plug, active, opts, rr, ctx, env>>

-----------------------------------------------------------------------------
(* The real rule tables (parser_core.py, parser_block.py, parser_inline.py) *)
CoreSeq    == <<"normalize", "block", "inline", "linkify", "replacements", "smartquotes", "text_join">>
BlockSeq   == <<"table", "code", "fence", "blockquote", "hr", "list", "reference", "html_block",
                "heading", "lheading", "paragraph">>
InlineSeq  == <<"text", "linkify", "newline", "escape", "backticks", "strikethrough", "emphasis",
                "link", "image", "autolink", "html_inline", "entity">>
Inline2Seq == <<"balance_pairs", "strikethrough", "emphasis", "fragments_join">>
Range(f) == {f[x] : x \in DOMAIN f}
CoreRules    == Range(CoreSeq)
BlockRules   == Range(BlockSeq)
InlineRules  == Range(InlineSeq)
Inline2Rules == Range(Inline2Seq)
(* terminator chains a block rule also belongs to (parser_block.py) *)
TermChains == {"paragraph", "reference", "blockquote", "list"}
BlockAlt(n) ==
    CASE n = "table" -> {"paragraph", "reference"}
      [] n \in {"fence", "blockquote", "hr"} -> {"paragraph", "reference", "blockquote", "list"}
      [] n \in {"list", "html_block", "heading"} -> {"paragraph", "reference", "blockquote"}
      [] n = "verif_block" -> {"paragraph", "reference", "blockquote", "list"}
      [] OTHER -> {}
Chain == {"core", "block", "inline", "inline2"}
NamesOf(c) == CASE c = "core" -> CoreRules [] c = "block" -> BlockRules
                [] c = "inline" -> InlineRules [] c = "inline2" -> Inline2Rules
SeqOf(c) == CASE c = "core" -> CoreSeq [] c = "block" -> BlockSeq
              [] c = "inline" -> InlineSeq [] c = "inline2" -> Inline2Seq
ChainSeq == <<"core", "block", "inline", "inline2">>
U(c, n) == c \o "/" \o n
Builtin == UNION {{U(c, n) : n \in NamesOf(c)} : c \in Chain}
PlugRule(c) == "verif_" \o c               \* the user rule a plugin adds to chain c
PlugRules == {U(c, PlugRule(c)) : c \in Chain}

Registered(i) == Builtin \cup (IF plug[i] THEN PlugRules ELSE {})
RegNames(i, c) == NamesOf(c) \cup (IF plug[i] THEN {PlugRule(c)} ELSE {})

(* presets/*.py : components with a "rules" list call enableOnly on that chain *)
CMCore    == {"normalize", "block", "inline", "text_join"}
CMBlock   == {"blockquote", "code", "fence", "heading", "hr", "html_block", "lheading", "list",
              "reference", "paragraph"}
CMInline  == {"autolink", "backticks", "emphasis", "entity", "escape", "html_inline", "image", "link",
              "newline", "text"}
CMInline2 == {"balance_pairs", "emphasis", "fragments_join"}
Components(p) ==
    CASE p = "commonmark" -> [core |-> CMCore, block |-> CMBlock, inline |-> CMInline, inline2 |-> CMInline2]
      [] p = "zero" -> [core |-> CMCore, block |-> {"paragraph"}, inline |-> {"text"},
                        inline2 |-> {"balance_pairs", "fragments_join"}]
      [] p = "js-default" -> [none |-> {}]      \* no "rules" lists: nothing is touched
HasRules(p) == p # "js-default"

OptKeySeq == <<"maxNesting", "html", "linkify", "typographer", "quotes", "xhtmlOut", "breaks", "langPrefix",
              "highlight", "store_labels", "inline_definitions">>
OptKeys == Range(OptKeySeq)
(* options that OptionsDict documents as attributes (utils.py); the attribute route exists for these *)
AttrKeys == OptKeys \ {"store_labels", "inline_definitions"}
Absent == "absent"
PresetOpts(p) ==
    [k \in OptKeys |->
       CASE k = "maxNesting" -> IF p = "js-default" THEN "100" ELSE "20"
         [] k = "html" -> IF p = "commonmark" THEN "T" ELSE "F"
         [] k = "xhtmlOut" -> IF p = "commonmark" THEN "T" ELSE "F"
         [] k \in {"linkify", "typographer", "breaks"} -> "F"
         [] k = "quotes" -> "default"
         [] k = "langPrefix" -> "language-"
         [] k = "highlight" -> "None"
         [] OTHER -> Absent]

Override(o, upd) == [k \in OptKeys |-> IF \E kv \in upd : kv[1] = k
                                       THEN (CHOOSE kv \in upd : kv[1] = k)[2] ELSE o[k]]
(* options_update: a set of <<k,v>> with distinct keys *)
Updates == {u \in SUBSET OptChoices : Cardinality(u) <= 1}

NameSets == {s \in SUBSET ToggleNames : s # {} /\ Cardinality(s) <= MaxNames}

(* Projection of the abstract state to what the public API shows (shared with FacadeTrace):
   per chain a bit mask of the active rules in registration order (the plugin rule is last). *)
RECURSIVE MaskFrom(_, _, _, _)
MaskFrom(S, c, sq, k) ==
    IF k > Len(sq) THEN 0
    ELSE (IF U(c, sq[k]) \in S THEN 2 ^ (k - 1) ELSE 0) + MaskFrom(S, c, sq, k + 1)
Mask(S, c) == MaskFrom(S, c, Append(SeqOf(c), PlugRule(c)), 1)
Masks(S) == [k \in 1..4 |-> Mask(S, ChainSeq[k])]
(* rules a terminator chain applies: active block rules that list the chain *)
TermMask(S, ch) ==
    LET sq == Append(BlockSeq, "verif_block")
        T == {U("block", sq[k]) : k \in {j \in 1..Len(sq) : ch \in BlockAlt(sq[j])}}
    IN Mask(S \cap T, "block")

-----------------------------------------------------------------------------
Init == /\ live = [i \in Inst |-> FALSE]
        /\ plug = [i \in Inst |-> FALSE]
        /\ active = [i \in Inst |-> {}]
        /\ opts = [i \in Inst |-> [k \in OptKeys |-> Absent]]
        /\ rr = [i \in Inst |-> {}]
        /\ ctx = [i \in Inst |-> <<>>]
        /\ env = {}
        /\ hist = <<>>

Log(e) == hist' = Append(hist, e)

(* configure(): options replaced wholesale; enableOnly per chain that lists rules *)
ConfiguredActive(cur, p) ==
    IF HasRules(p) THEN UNION {{U(c, n) : n \in Components(p)[c]} : c \in Chain} ELSE cur

Construct(i, p, upd) ==
    /\ ~live[i]
    /\ live' = [live EXCEPT ![i] = TRUE]
    /\ plug' = [plug EXCEPT ![i] = FALSE]
    /\ active' = [active EXCEPT ![i] = ConfiguredActive(Builtin, p)]
    /\ opts' = [opts EXCEPT ![i] = Override(PresetOpts(p), upd)]
    /\ rr' = [rr EXCEPT ![i] = {}]
    /\ ctx' = [ctx EXCEPT ![i] = <<>>]
    /\ UNCHANGED env
    /\ Log([op |-> "construct", i |-> i, preset |-> p, upd |-> upd])

Configure(i, p, upd) ==
    /\ live[i]
    /\ active' = [active EXCEPT ![i] = ConfiguredActive(@, p)]
    /\ opts' = [opts EXCEPT ![i] = Override(PresetOpts(p), upd)]
    /\ UNCHANGED <<live, plug, rr, ctx, env>>
    /\ Log([op |-> "configure", i |-> i, preset |-> p, upd |-> upd])

Discard(i) ==
    /\ live[i]
    /\ live' = [live EXCEPT ![i] = FALSE]
    /\ plug' = [plug EXCEPT ![i] = FALSE]
    /\ active' = [active EXCEPT ![i] = {}]
    /\ opts' = [opts EXCEPT ![i] = [k \in OptKeys |-> Absent]]
    /\ rr' = [rr EXCEPT ![i] = {}]
    /\ ctx' = [ctx EXCEPT ![i] = <<>>]
    /\ UNCHANGED env
    /\ Log([op |-> "discard", i |-> i])

(* md.use(plugin): one user rule per chain, registered enabled (block/inline: at the front of the
   chain, so that it is reached on every dispatch; core/inline2: at the end) *)
Use(i) ==
    /\ live[i] /\ ~plug[i]
    /\ plug' = [plug EXCEPT ![i] = TRUE]
    /\ active' = [active EXCEPT ![i] = @ \cup PlugRules]
    /\ UNCHANGED <<live, opts, rr, ctx, env>>
    /\ Log([op |-> "use", i |-> i])

(* MarkdownIt.enable / disable: fan out to the four rulers with ignoreInvalid, then complain *)
Hit(i, names)    == {U(c, n) : c \in Chain, n \in names} \cap Registered(i)
Missed(i, names) == {n \in names : \A c \in Chain : U(c, n) \notin Registered(i)}

Toggle(op, i, names, ign) ==
    /\ live[i]
    /\ active' = [active EXCEPT ![i] = IF op = "enable" THEN @ \cup Hit(i, names) ELSE @ \ Hit(i, names)]
    /\ UNCHANGED <<live, plug, opts, rr, ctx, env>>
    /\ Log([op |-> op, i |-> i, names |-> names, ign |-> ign,
            out |-> IF Missed(i, names) # {} /\ ~ign THEN "ValueError" ELSE "ok"])

(* the ruler API of ONE chain of an instance (md.block.ruler, md.inline.ruler2, ...), with ignoreInvalid:
   the only way to put a rule name that two chains share (emphasis, strikethrough, linkify) into
   different states in the two chains *)
ChainHit(i, c, names) == {U(c, n) : n \in names} \cap Registered(i)
ChainToggle(kind, i, c, names) ==
    /\ live[i]
    /\ kind \in {"enable", "disable", "enableOnly"}
    /\ active' = [active EXCEPT ![i] =
                    CASE kind = "enable" -> @ \cup ChainHit(i, c, names)
                      [] kind = "disable" -> @ \ ChainHit(i, c, names)
                      [] kind = "enableOnly" -> (@ \ {U(c, n) : n \in RegNames(i, c)}) \cup ChainHit(i, c, names)]
    /\ UNCHANGED <<live, plug, opts, rr, ctx, env>>
    /\ Log([op |-> "chain_toggle", i |-> i, kind |-> kind, chain |-> c, names |-> names])

(* the three public routes to write an option are one action *)
SetOpt(i, route, kv) ==
    /\ live[i]
    /\ route \in {"item", "attr"}
    /\ opts' = [opts EXCEPT ![i] = Override(@, {kv})]
    /\ UNCHANGED <<live, plug, active, rr, ctx, env>>
    /\ Log([op |-> "setopt", i |-> i, route |-> route, k |-> kv[1], v |-> kv[2]])

(* one instance is handed another's options object (md_i.set(md_j.options)): i gets j's option VALUES; the two    *)
(* instances stay separate, whatever is written to either afterwards                                                *)
ShareOpts(i, j) ==
    /\ live[i] /\ live[j] /\ i # j
    /\ opts' = [opts EXCEPT ![i] = opts[j]]
    /\ UNCHANGED <<live, plug, active, rr, ctx, env>>
    /\ Log([op |-> "share_opts", i |-> i, j |-> j])

AddRenderRule(i, n) ==
    /\ live[i]
    /\ rr' = [rr EXCEPT ![i] = @ \cup {n}]
    /\ UNCHANGED <<live, plug, active, opts, ctx, env>>
    /\ Log([op |-> "add_render_rule", i |-> i, name |-> n])

(* reset_rules(): snapshot on entry, restore on EVERY exit path, innermost first *)
EnterReset(i) ==
    /\ live[i] /\ Len(ctx[i]) < MaxCtx
    /\ ctx' = [ctx EXCEPT ![i] = Append(@, active[i])]
    /\ UNCHANGED <<live, plug, active, opts, rr, env>>
    /\ Log([op |-> "enter_reset", i |-> i])

ExitReset(i, how) ==
    /\ live[i] /\ Len(ctx[i]) > 0
    /\ LET snap == ctx[i][Len(ctx[i])] IN
       active' = [active EXCEPT ![i] = IF how = "exception" /\ Variant = "as_found" THEN @ ELSE snap]
    /\ ctx' = [ctx EXCEPT ![i] = SubSeq(@, 1, Len(@) - 1)]
    /\ UNCHANGED <<live, plug, opts, rr, env>>
    /\ Log([op |-> "exit_reset", i |-> i, how |-> how])

(* a parse/render: reads the configuration; writes only the env the caller passed *)
Parse(i, api, d, mode) ==
    /\ live[i]
    /\ env' = IF mode = "shared" /\ api \in {"parse", "render"} /\ U("block", "reference") \in active[i]
                 /\ U("block", "paragraph") \in active[i]
              THEN env \cup Defines[d] ELSE env
    /\ UNCHANGED <<live, plug, active, opts, rr, ctx>>
    /\ Log([op |-> "parse", i |-> i, api |-> api, doc |-> d, env |-> mode])

(* user code raises at its k-th invocation inside a call: the exception propagates, nothing changes.
   (k is chosen by the replay harness among the invocations that really occur.) *)
SiteReady(i, site) ==
    CASE site \in Chain -> plug[i] /\ U(site, PlugRule(site)) \in active[i]
      [] site = "render" -> "text" \in rr[i]
      [] site = "highlight" -> opts[i]["highlight"] = "H"
      [] OTHER -> FALSE

ParseFault(i, d, site, exc) ==
    /\ live[i] /\ SiteReady(i, site)
    /\ UNCHANGED <<live, plug, active, opts, rr, ctx, env>>
    /\ Log([op |-> "fault", i |-> i, doc |-> d, site |-> site, exc |-> exc])

(* exception types user code may raise - among them the ones library code is most tempted to catch and reinterpret  *)
(* (TypeError: arity fallbacks, AttributeError: duck typing, IndexError / StopIteration: scanning loops)             *)
Excs == {"ValueError", "KeyError", "RecursionError", "KeyboardInterrupt", "TypeError", "AttributeError", "IndexError",
         "StopIteration"}

Next ==
    \/ \E i \in Inst, p \in Presets, u \in Updates : Construct(i, p, u)
    \/ \E i \in Inst, p \in Presets, u \in Updates : Configure(i, p, u)
    \/ \E i \in Inst : Discard(i)
    \/ \E i \in Inst : Use(i)
    \/ \E i \in Inst, ns \in NameSets, ign \in BOOLEAN : Toggle("enable", i, ns, ign)
    \/ \E i \in Inst, ns \in NameSets, ign \in BOOLEAN : Toggle("disable", i, ns, ign)
    \/ \E i \in Inst, ns \in NameSets, c \in ChainToggleChains, k \in {"enable", "disable", "enableOnly"} :
           ChainToggle(k, i, c, ns)
    \/ \E i \in Inst, route \in {"item", "attr"}, kv \in OptChoices : SetOpt(i, route, kv)
    \/ \E i \in Inst, j \in Inst : ShareOpts(i, j)
    \/ \E i \in Inst, n \in RRNames : AddRenderRule(i, n)
    \/ \E i \in Inst : EnterReset(i)
    \/ \E i \in Inst, how \in {"normal", "exception"} : ExitReset(i, how)
    \/ \E i \in Inst, api \in {"render", "parse"}, d \in Docs, m \in {"omitted", "fresh", "shared"} : Parse(i, api, d, m)
    \/ \E i \in Inst, d \in Docs, s \in FaultSites, x \in Excs : ParseFault(i, d, s, x)

Spec == Init /\ [][Next]_vars
NextP == PrintT(ToJson(hist)) /\ Next
SpecP == Init /\ [][NextP]_vars
Bound == Len(hist) <= MaxDepth

-----------------------------------------------------------------------------
(* Properties *)
Last == hist'[Len(hist')]

TypeOK == \A i \in Inst : /\ active[i] \subseteq Registered(i)
                          /\ (~live[i] => active[i] = {} /\ ctx[i] = <<>>)

(* C12: an action on one instance never changes another instance *)
Isolation ==
    [][\A j \in Inst : (j # Last.i) =>
          /\ active'[j] = active[j] /\ opts'[j] = opts[j] /\ rr'[j] = rr[j]
          /\ plug'[j] = plug[j] /\ ctx'[j] = ctx[j] /\ live'[j] = live[j]]_vars

(* C14: leaving a reset_rules block by any path restores the rules in force on entry *)
ResetRestores ==
    [][(Last.op = "exit_reset") => active'[Last.i] = ctx[Last.i][Len(ctx[Last.i])]]_vars

(* C14: a fault inside a call is inert;  C12: so is an ordinary parse, except for the caller's env *)
CallsAreInert ==
    [][(Last.op \in {"fault", "parse"}) =>
          /\ active' = active /\ opts' = opts /\ rr' = rr /\ plug' = plug /\ ctx' = ctx
          /\ (Last.op = "fault" \/ Last.env # "shared" => env' = env)]_vars

(* C10: the route by which an option is written is irrelevant *)
RoutesAgree ==
    [][(Last.op = "setopt") => opts'[Last.i] = Override(opts[Last.i], {<<Last.k, Last.v>>})]_vars
=============================================================================
