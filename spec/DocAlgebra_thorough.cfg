CONSTANTS
  Markers <- MCMarkers
  MaxDepth = 3
  MaxLeaves = 2
SPECIFICATION Spec
INVARIANT LevelsAreDepths
INVARIANT Balanced
INVARIANT MapsInRange
INVARIANT LiftShiftCommute
INVARIANT ExportLast
CHECK_DEADLOCK FALSE
