CONSTANTS
  Alphabet <- LM
  Core <- LMCore
  Mid <- LMCore
  MaxAll = 2
  MaxMid = 2
  MaxCore = 2
  Wrappers <- WrapM
  MaxWrap = 1
  MaxDeep = 2
  DeepWraps = 1
SPECIFICATION Spec
INVARIANT Bounded
INVARIANT Shape
INVARIANT WrapsOK
CHECK_DEADLOCK FALSE
