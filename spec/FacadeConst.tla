---------------------------- MODULE FacadeConst ----------------------------
(* Exports the rule orders / option keys of Facade.tla to the replay harness. *)
EXTENDS Facade
Stop == FALSE /\ UNCHANGED vars
ASSUME PrintT(ToJson([order |-> [core |-> CoreSeq, block |-> BlockSeq, inline |-> InlineSeq, inline2 |-> Inline2Seq],
                      optkeys |-> OptKeySeq,
                      attrkeys |-> SelectSeq(OptKeySeq, LAMBDA k : k \in AttrKeys)]))
=============================================================================
