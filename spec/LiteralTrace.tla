----------------------------- MODULE LiteralTrace -----------------------------
(***************************************************************************)
(* C09: backslash-escaping (or writing characters as numeric / named       *)
(* character references) makes any text literal in every inline context.   *)
(* Shard header (from LiteralConst.tla, as code points): for each context  *)
(* the Markdown template split at "@" (mpre, mpost) and the HTML template  *)
(* (hpre, hpost; hx = the xhtmlOut insertion), and the named references.   *)
(* Trace: t (code points), form in {"bs", "dec", "hex", "named"}, ctx,     *)
(* xhtml (0/1), doc (the document that was rendered), html (the output).   *)
(* The specification (i) recomputes the escaped spelling of t and checks   *)
(* that doc is the template applied to it, (ii) evaluates the side         *)
(* conditions of the quantifier, (iii) computes the expected HTML          *)
(* - template around EscapeHtml(t) - and requires equality.                *)
(***************************************************************************)
EXTENDS Integers, Sequences, FiniteSets, TLC, Json, IOUtils

VARIABLES tid, l, verdict, done
tvars == <<tid, l, verdict, done>>
Data   == JsonDeserialize(IOEnv.TRACE_FILE)
Traces == Data.traces
Meta   == Data.meta
Tr     == Traces[tid]

AsciiPunct == (33..47) \cup (58..64) \cup (91..96) \cup (123..126)
Blank(c) == c \in {32, 9, 10, 11, 12, 13, 28, 29, 30, 31, 133, 160, 5760, 8232, 8233, 8239, 8287, 12288} \cup (8192..8202)
(* code points an HTML character reference may denote *)
RefOK(c) == /\ c >= 32 /\ ~(c >= 127 /\ c <= 159)
            /\ ~(c >= 55296 /\ c <= 57343) /\ ~(c >= 64976 /\ c <= 65007)
            /\ (c % 65536) \notin {65534, 65535} /\ c <= 1114111

RECURSIVE Digits(_, _)
Digits(n, base) ==
    LET d == n % base ch == IF d < 10 THEN 48 + d ELSE 87 + d IN
    IF n < base THEN <<ch>> ELSE Digits(n \div base, base) \o <<ch>>

NamedOf(c) == LET S == {k \in DOMAIN Meta.named : Meta.named[k][1] = c} IN
              IF S = {} THEN <<>> ELSE Meta.named[CHOOSE k \in S : TRUE][2]

Spell(c, form) ==
    CASE form = "bs" -> IF c \in AsciiPunct THEN <<92, c>> ELSE <<c>>
      [] form = "dec" -> <<38, 35>> \o Digits(c, 10) \o <<59>>
      [] form = "hex" -> <<38, 35, 120>> \o Digits(c, 16) \o <<59>>
      [] form = "named" -> IF NamedOf(c) # <<>> THEN <<38>> \o NamedOf(c) \o <<59>>
                           ELSE <<38, 35>> \o Digits(c, 10) \o <<59>>

RECURSIVE Escaped(_, _)
Escaped(t, form) == IF t = <<>> THEN <<>> ELSE Spell(t[1], form) \o Escaped(Tail(t), form)

EscHtml1(c) == CASE c = 38 -> <<38, 97, 109, 112, 59>> [] c = 60 -> <<38, 108, 116, 59>>
                 [] c = 62 -> <<38, 103, 116, 59>> [] c = 34 -> <<38, 113, 117, 111, 116, 59>>
                 [] OTHER -> <<c>>
RECURSIVE EscHtml(_)
EscHtml(t) == IF t = <<>> THEN <<>> ELSE EscHtml1(t[1]) \o EscHtml(Tail(t))

Ctx == Meta.ctx[Tr.ctx]

Verdict ==
    LET t == Tr.t IN
    IF t = <<>> THEN "skip:empty"
    ELSE IF \E k \in DOMAIN t : t[k] \in {10, 13, 0} THEN "skip:not_single_line"
    ELSE IF Ctx.name \notin {"title", "title1"} /\ (Blank(t[1]) \/ Blank(t[Len(t)])) THEN "skip:leading_or_trailing_blank"
    ELSE IF Tr.form # "bs" /\ \E k \in DOMAIN t : ~RefOK(t[k]) THEN "skip:not_denotable_by_a_reference"
    ELSE IF Tr.doc # Ctx.mpre \o Escaped(t, Tr.form) \o Ctx.mpost THEN "harness:document"
    ELSE IF Tr.html # Ctx.hpre \o EscHtml(t) \o Ctx.hmid[Tr.xhtml + 1] \o Ctx.hpost THEN "not_literal"
    ELSE "ok"

Consume == /\ l' = l + 1 /\ verdict' = Verdict /\ UNCHANGED <<tid, done>>
Finish == /\ PrintT(<<"V", tid, verdict, l>>) /\ done' = TRUE /\ UNCHANGED <<tid, l, verdict>>
TraceInit == tid \in 1..Len(Traces) /\ l = 1 /\ verdict = "ok" /\ done = FALSE
TraceNext == /\ ~done
             /\ IF verdict # "ok" \/ l > 1 THEN Finish ELSE Consume
TraceSpec == TraceInit /\ [][TraceNext]_tvars
=============================================================================
