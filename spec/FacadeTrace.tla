---------------------------- MODULE FacadeTrace ----------------------------
(***************************************************************************)
(* Trace specification for C12 / C14 (and the facade halves of C10, C11):  *)
(* validates executions recorded from real MarkdownIt instances against    *)
(* the actions of Facade.tla.                                              *)
(*                                                                         *)
(* Every event is consumed by the Facade action of the same name with the  *)
(* logged arguments.  After the action the logged projection of EVERY live *)
(* instance (reported active rules per chain as bit masks, options, render *)
(* rules), the pristine-ness of the shared presets, the labels in the      *)
(* caller's shared env and the outcome are compared with the model.        *)
(* For parse events additionally:                                          *)
(*   fresh       result = result of a freshly built, identically           *)
(*               configured instance                                       *)
(*   functional  result is a function of <<configuration, api, document,   *)
(*               env content>> over the whole history (variable F)         *)
(*   applied     the rules really applied (getRules on the four rulers and *)
(*               the four terminator chains, and which plugin rules were   *)
(*               actually invoked) are the rules reported active           *)
(* For fault events: the injected exception propagates unchanged.          *)
(***************************************************************************)
EXTENDS Facade, IOUtils

VARIABLES tid, l, verdict, done, F

tvars == <<vars, tid, l, verdict, done, F>>

Data   == JsonDeserialize(IOEnv.TRACE_FILE)
Traces == Data.traces
Ev     == Traces[tid].ev
ToSet(s) == {s[k] : k \in DOMAIN s}
Pairs(s) == {<<s[k][1], s[k][2]>> : k \in DOMAIN s}

OptVals(o) == [k \in 1..Len(OptKeySeq) |-> o[OptKeySeq[k]]]

(* expected projection of instance i in the primed state, in the logged shape *)
ProjOK(p) ==
    LET i == p.i IN
    /\ (p.live = 1) = live'[i]
    /\ live'[i] =>
         /\ p.masks = Masks(active'[i])
         /\ p.opts = OptVals(opts'[i])
         /\ ToSet(p.rr) = rr'[i]
         /\ (p.plug = 1) = plug'[i]

Key(e) == <<active'[e.i], opts'[e.i], rr'[e.i], plug'[e.i], e.api, e.doc,
            IF e.env = "shared" THEN env ELSE {}>>

AllBase(i) == {U("core", "normalize"), U("core", "block"), U("core", "inline"),
               U("block", "paragraph"), U("inline", "text")} \subseteq active'[i]

AppliedOK(e) ==
    /\ e.applied.main = Masks(active'[e.i])
    /\ \A k \in DOMAIN e.applied.term :
          e.applied.term[k][2] = TermMask(active'[e.i], e.applied.term[k][1])
    /\ (plug'[e.i] /\ e.api \in {"parse", "render"}) =>
          \A k \in 1..4 :
             LET on == U(ChainSeq[k], PlugRule(ChainSeq[k])) \in active'[e.i] IN
             /\ (e.spy[k] = 1) => on
             /\ (on /\ AllBase(e.i)) => e.spy[k] = 1

RuleOps == {"enable", "disable", "chain_toggle", "configure", "use", "enter_reset", "exit_reset"}
ChainsOK(e) ==
    /\ e.applied.main = Masks(active'[e.i])
    /\ \A k \in DOMAIN e.applied.term :
          e.applied.term[k][2] = TermMask(active'[e.i], e.applied.term[k][1])

ExpectedOut(e) ==
    CASE e.op \in {"enable", "disable"} -> Last.out
      [] e.op = "fault" -> e.exc
      [] e.op = "exit_reset" -> IF e.how = "exception" THEN "propagated" ELSE "ok"
      [] OTHER -> "ok"

Check(e) ==
    IF e.out # ExpectedOut(e) THEN "outcome"
    ELSE IF \E k \in DOMAIN e.proj : ~ProjOK(e.proj[k]) THEN "projection"
    ELSE IF e.presets_ok # 1 THEN "presets_mutated"
    ELSE IF ToSet(e.envlabels) # env' THEN "env_labels"
    ELSE IF e.op = "parse" /\ e.res # e.fresh THEN "differs_from_fresh_instance"
    ELSE IF e.op = "parse" /\ \E p \in F : p[1] = Key(e) /\ p[2] # e.res THEN "not_functional"
    ELSE IF e.op = "parse" /\ ~AppliedOK(e) THEN "applied_ne_reported"
    ELSE IF e.op \in RuleOps /\ live'[e.i] /\ e.applied.main # <<>> /\ ~ChainsOK(e) THEN "applied_ne_reported_after_management_call"
    ELSE "ok"

Consume ==
    LET e == Ev[l] IN
    /\ l' = l + 1
    /\ \/ e.op = "construct" /\ Construct(e.i, e.preset, Pairs(e.upd))
       \/ e.op = "configure" /\ Configure(e.i, e.preset, Pairs(e.upd))
       \/ e.op = "discard" /\ Discard(e.i)
       \/ e.op = "use" /\ Use(e.i)
       \/ e.op \in {"enable", "disable"} /\ Toggle(e.op, e.i, ToSet(e.names), e.ign)
       \/ e.op = "chain_toggle" /\ ChainToggle(e.kind, e.i, e.chain, ToSet(e.names))
       \/ e.op = "setopt" /\ SetOpt(e.i, e.route, <<e.k, e.v>>)
       \/ e.op = "share_opts" /\ ShareOpts(e.i, e.j)
       \/ e.op = "add_render_rule" /\ AddRenderRule(e.i, e.name)
       \/ e.op = "enter_reset" /\ EnterReset(e.i)
       \/ e.op = "exit_reset" /\ ExitReset(e.i, e.how)
       \/ e.op = "parse" /\ Parse(e.i, e.api, e.doc, e.env)
       \/ e.op = "fault" /\ ParseFault(e.i, e.doc, e.site, e.exc)
    /\ verdict' = Check(e)
    /\ F' = IF e.op = "parse" THEN F \cup {<<Key(e), e.res>>} ELSE F
    /\ UNCHANGED <<tid, done>>

Finish ==
    /\ PrintT(<<"V", tid, verdict, l>>)
    /\ done' = TRUE
    /\ UNCHANGED <<vars, tid, l, verdict, F>>

TraceInit == /\ Init /\ tid \in 1..Len(Traces) /\ l = 1 /\ verdict = "ok" /\ done = FALSE /\ F = {}

TraceNext == /\ ~done
             /\ IF verdict # "ok" \/ l > Len(Ev) THEN Finish ELSE Consume

TraceSpec == TraceInit /\ [][TraceNext]_tvars
TraceTypeOK == TypeOK
=============================================================================
