CONSTANTS
  Alphabet <- LQ
  Core <- LQCore
  Mid <- LQCore
  MaxAll = 3
  MaxMid = 4
  MaxCore = 4
  Wrappers <- Wrap2
  MaxWrap = 1
  MaxDeep = 3
  DeepWraps = 0
SPECIFICATION Spec
INVARIANT Bounded
CHECK_DEADLOCK FALSE
