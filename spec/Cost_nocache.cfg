CONSTANTS
  N = 9
  MaxNesting = 3
  UseCache = FALSE
  CacheBailOut = TRUE
  K = 12
SPECIFICATION Spec
INVARIANT WorkLinear
CHECK_DEADLOCK FALSE
