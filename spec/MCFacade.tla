------------------------------ MODULE MCFacade ------------------------------
EXTENDS Facade
MCDefines == [d \in {"D1", "D2", "D3", "D4"} |-> IF d = "D1" THEN {"x"} ELSE {}]
OptC12  == {<<"html", "F">>, <<"breaks", "T">>}
OptC12T == {<<"html", "F">>, <<"html", "T">>, <<"breaks", "T">>, <<"store_labels", "T">>, <<"typographer", "T">>}
OptC14  == {<<"highlight", "H">>, <<"breaks", "T">>}
OptNone == {}
=============================================================================
