CONSTANTS
  Alphabet <- L2
  Core <- L2Core
  Mid <- L2Core
  MaxAll = 2
  MaxMid = 2
  MaxCore = 2
  Wrappers <- Wrap2
  MaxWrap = 2
  MaxDeep = 1
SPECIFICATION Spec
INVARIANT Bounded
INVARIANT Shape
INVARIANT WrapsOK
CHECK_DEADLOCK FALSE
