CONSTANTS
  Alphabet <- L2
  Core <- L2Core
  Mid <- L2Mid
  MaxAll = 2
  MaxMid = 3
  MaxCore = 5
  Wrappers <- Wrap2
  MaxWrap = 2
  MaxDeep = 1
  DeepWraps = 0
SPECIFICATION Spec
INVARIANT Bounded
INVARIANT Shape
INVARIANT WrapsOK
CHECK_DEADLOCK FALSE
