SPECIFICATION TraceSpec
INVARIANT StackOK
CHECK_DEADLOCK FALSE
