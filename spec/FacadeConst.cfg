CONSTANTS
  Inst = {1}
  Presets = {"zero"}
  ToggleNames = {"x"}
  MaxNames = 1
  OptChoices = {}
  RRNames = {}
  Docs = {}
  Defines = {}
  FaultSites = {}
  MaxCtx = 0
  MaxDepth = 0
  ChainToggleChains = {}
  Variant = "head"
INIT Init
NEXT Stop
CHECK_DEADLOCK FALSE
