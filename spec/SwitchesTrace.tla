---------------------------- MODULE SwitchesTrace ----------------------------
(***************************************************************************)
(* C10: rule and option switches have exactly their documented effect.     *)
(* Two kinds of trace:                                                     *)
(*  "types"  active (enabled rules as "chain/name"), html, idef (options), *)
(*           types (token types occurring anywhere in the parse, children  *)
(*           included).  Clause not_produced_by_enabled_rule: every type   *)
(*           has a producing alternative (a set of rules, all enabled,     *)
(*           plus its option condition) - the relation Produces below.     *)
(*  "pair"   one document parsed under two configurations that differ by   *)
(*           one switch `rel`:                                             *)
(*           table / strikethrough: conservative extension - if the        *)
(*             document has no trigger ('|', resp. "~~") the streams, env  *)
(*             and HTML are identical;                                     *)
(*           inline_definitions / store_labels: add-only - the on-stream   *)
(*             minus definition tokens and label metadata is the           *)
(*             off-stream, env identical, HTML equal up to line feeds      *)
(*             directly after a tag.                                       *)
(***************************************************************************)
EXTENDS Integers, Sequences, FiniteSets, TLC, Json, IOUtils

VARIABLES tid, l, verdict, done
tvars == <<tid, l, verdict, done>>
Data   == JsonDeserialize(IOEnv.TRACE_FILE)
Traces == Data.traces
Tr     == Traces[tid]
ToSet(s) == {s[k] : k \in DOMAIN s}

(* type -> set of alternatives; an alternative is [rules, html, idef] *)
Alt(rs) == [rules |-> rs, html |-> FALSE, idef |-> FALSE]
AltH(rs) == [rules |-> rs, html |-> TRUE, idef |-> FALSE]
Containers == {{"block/paragraph"}, {"block/heading"}, {"block/lheading"}, {"block/table"}}
Produces(ty) ==
    CASE ty \in {"paragraph_open", "paragraph_close"} -> {Alt({"block/paragraph"})}
      [] ty = "inline" -> {Alt(c) : c \in Containers}
      [] ty = "text" -> {Alt({})}                       \* the inline fallback (pending text) is always there
      [] ty \in {"heading_open", "heading_close"} -> {Alt({"block/heading"}), Alt({"block/lheading"})}
      [] ty = "code_block" -> {Alt({"block/code"})}
      [] ty = "fence" -> {Alt({"block/fence"})}
      [] ty \in {"blockquote_open", "blockquote_close"} -> {Alt({"block/blockquote"})}
      [] ty = "hr" -> {Alt({"block/hr"})}
      [] ty \in {"bullet_list_open", "bullet_list_close", "ordered_list_open", "ordered_list_close",
                 "list_item_open", "list_item_close"} -> {Alt({"block/list"})}
      [] ty = "definition" -> {[rules |-> {"block/reference"}, html |-> FALSE, idef |-> TRUE]}
      [] ty = "html_block" -> {AltH({"block/html_block"})}
      [] ty \in {"table_open", "table_close", "thead_open", "thead_close", "tbody_open", "tbody_close",
                 "tr_open", "tr_close", "th_open", "th_close", "td_open", "td_close"} -> {Alt({"block/table"})}
      [] ty = "softbreak" -> {Alt({"inline/newline"})}
      [] ty = "hardbreak" -> {Alt({"inline/newline"}), Alt({"inline/escape"})}
      [] ty = "code_inline" -> {Alt({"inline/backticks"})}
      [] ty \in {"s_open", "s_close"} -> {Alt({"inline/strikethrough", "inline2/strikethrough"})}
      [] ty \in {"em_open", "em_close", "strong_open", "strong_close"} -> {Alt({"inline/emphasis", "inline2/emphasis"})}
      [] ty \in {"link_open", "link_close"} -> {Alt({"inline/link"}), Alt({"inline/autolink"})}
      [] ty = "image" -> {Alt({"inline/image"})}
      [] ty = "html_inline" -> {AltH({"inline/html_inline"})}
      [] OTHER -> {}

TypesVerdict ==
    LET act == ToSet(Tr.active)
        bad == {ty \in ToSet(Tr.types) :
                  ~\E a \in Produces(ty) : a.rules \subseteq act /\ (a.html => Tr.html = 1) /\ (a.idef => Tr.idef = 1)}
    IN IF bad # {} THEN "not_produced_by_enabled_rule"
       \* a configuration reached by another public route of switching (configure on a used instance, a
       \* reset_rules block that is left again) is the configuration: exactly the same rules are in force
       ELSE IF Tr.want # <<>> /\ act # ToSet(Tr.want) THEN "switch_route_left_different_rules_in_force"
       ELSE "ok"

Has(doc, w) == \E k \in 1..(Len(doc) - Len(w) + 1) : SubSeq(doc, k, k + Len(w) - 1) = w

RECURSIVE DropLfAfterTag(_, _)
DropLfAfterTag(h, prev) ==
    IF h = <<>> THEN <<>>
    ELSE IF h[1] = 10 /\ prev = 62 THEN DropLfAfterTag(Tail(h), prev)
    ELSE <<h[1]>> \o DropLfAfterTag(Tail(h), h[1])

Stripped(ts) ==     \* without definition tokens, label metadata removed (projection fields of the harness)
    LET k == SelectSeq(ts, LAMBDA x : x.ty # "definition") IN
    [i \in DOMAIN k |-> [k[i] EXCEPT !.me = k[i].me0, !.kids = k[i].kids0]]

PairVerdict ==
    LET on == Tr.on off == Tr.off IN
    IF Tr.rel = "table" /\ Has(Tr.doc, <<124>>) THEN "skip:document_contains_pipe"
    ELSE IF Tr.rel = "strikethrough" /\ Has(Tr.doc, <<126, 126>>) THEN "skip:document_contains_tildes"
    ELSE IF Tr.rel \in {"table", "strikethrough"} THEN
         (IF on.toks # off.toks THEN "extension_not_conservative"
          ELSE IF on.refs # off.refs \/ on.dups # off.dups THEN "env_differs"
          ELSE IF on.html # off.html THEN "html_differs" ELSE "ok")
    ELSE \* add-only options
         (IF Stripped(on.toks) # Stripped(off.toks) THEN "option_not_add_only"
          ELSE IF on.refs # off.refs \/ on.dups # off.dups THEN "env_differs"
          ELSE IF DropLfAfterTag(on.html, 0) # DropLfAfterTag(off.html, 0) THEN "html_differs"
          ELSE "ok")

Verdict == IF Tr.kind = "types" THEN TypesVerdict ELSE PairVerdict
Consume == /\ l' = l + 1 /\ verdict' = Verdict /\ UNCHANGED <<tid, done>>
Finish == /\ PrintT(<<"V", tid, verdict, l>>) /\ done' = TRUE /\ UNCHANGED <<tid, l, verdict>>
TraceInit == tid \in 1..Len(Traces) /\ l = 1 /\ verdict = "ok" /\ done = FALSE
TraceNext == /\ ~done
             /\ IF verdict # "ok" \/ l > 1 THEN Finish ELSE Consume
TraceSpec == TraceInit /\ [][TraceNext]_tvars
=============================================================================
