------------------------------ MODULE HtmlBlocks ------------------------------
(***************************************************************************)
(* HTML blocks (growth, ./check system): start conditions 1-7 of           *)
(* CommonMark, their end conditions and the rule that a block of kind 7    *)
(* does not interrupt a paragraph, against the real block machine on       *)
(* documents of up to three lines over the line shapes of the harness.     *)
(*   kind 1  <script | <pre | <style | <textarea (any case) followed by    *)
(*           white space, ">" or the end; ends with the line that holds    *)
(*           the closing tag                                               *)
(*   kind 2  <!--  ...  -->        kind 3  <?  ...  ?>                     *)
(*   kind 4  <! + an UPPER-case letter (as implemented: the lower-case     *)
(*           spelling is not recognised - named deviation)  ...  >         *)
(*   kind 5  <![CDATA[  ...  ]]>                                           *)
(*   kind 6  < or </ + a block-level tag name (any case) followed by white *)
(*           space, ">", "/>" or the end; ends before the next blank line  *)
(*   kind 7  a complete open or closing tag alone on its line; ends before *)
(*           the next blank line; cannot interrupt a paragraph             *)
(* A line indented four columns or more is code, not HTML.  The expected   *)
(* first block is computed from the lines; the trace carries the observed  *)
(* <<type, map end>> of the first token of the real parse.                 *)
(***************************************************************************)
EXTENDS Integers, Sequences, FiniteSets, TLC, Json, IOUtils

VARIABLES tid, l, verdict, done
tvars == <<tid, l, verdict, done>>
Data   == JsonDeserialize(IOEnv.TRACE_FILE)
Traces == Data.traces
Calls  == Traces[tid].calls

Blank == {32, 9}
WS == {32, 9, 10, 11, 12, 13}
Lower(c) == IF c >= 65 /\ c <= 90 THEN c + 32 ELSE c
LowerSeq(s) == [k \in DOMAIN s |-> Lower(s[k])]
RECURSIVE DropBlanks(_)
DropBlanks(s) == IF s # <<>> /\ s[1] \in Blank THEN DropBlanks(Tail(s)) ELSE s
RECURSIVE LeadCols(_, _, _)
LeadCols(s, k, col) == IF k <= Len(s) /\ s[k] \in Blank THEN LeadCols(s, k + 1, IF s[k] = 9 THEN col + 4 - (col % 4) ELSE col + 1) ELSE col
IsBlank(s) == DropBlanks(s) = <<>>
StartsWith(s, p) == Len(s) >= Len(p) /\ SubSeq(s, 1, Len(p)) = p
Contains(s, p) == \E off \in 0..(Len(s) - Len(p)) : SubSeq(s, off + 1, off + Len(p)) = p
After(s, n) == SubSeq(s, n + 1, Len(s))
IsAlnum(c) == (c >= 48 /\ c <= 57) \/ (c >= 65 /\ c <= 90) \/ (c >= 97 /\ c <= 122)
RECURSIVE NameLen(_)
NameLen(s) == IF s # <<>> /\ (IsAlnum(s[1]) \/ s[1] = 45) THEN 1 + NameLen(Tail(s)) ELSE 0

(* the name lists are constants of Alphabets.tla (HtmlNames1, HtmlNames6); TLC cannot index strings, so they come back through the trace header as code point sequences *)
ToSet(s) == {s[k] : k \in DOMAIN s}
Names1 == ToSet(Data.meta.names1)
Names6 == ToSet(Data.meta.names6)


(* a complete open or closing tag (CommonMark 6.6), alone on its line up to trailing white space *)
IsLetter(c) == (c >= 65 /\ c <= 90) \/ (c >= 97 /\ c <= 122)
RECURSIVE SkipWS(_)
SkipWS(s) == IF s # <<>> /\ s[1] \in WS THEN SkipWS(Tail(s)) ELSE s
RECURSIVE AttrNameLen(_)
AttrNameLen(s) == IF s # <<>> /\ (IsAlnum(s[1]) \/ s[1] \in {95, 46, 58, 45}) THEN 1 + AttrNameLen(Tail(s)) ELSE 0
RECURSIVE UnquotedLen(_)
UnquotedLen(s) == IF s # <<>> /\ s[1] \notin WS \cup {34, 39, 61, 60, 62, 96} THEN 1 + UnquotedLen(Tail(s)) ELSE 0
RECURSIVE UpTo(_, _)
UpTo(s, q) == IF s = <<>> THEN -1 ELSE IF s[1] = q THEN 0 ELSE LET n == UpTo(Tail(s), q) IN IF n < 0 THEN -1 ELSE n + 1
(* s = what follows the tag name; TRUE iff it is attributes* ws* "/"? ">" ws* *)
RECURSIVE TagTail(_)
TagTail(s) ==
    LET t == SkipWS(s) IN
    IF t = <<>> THEN FALSE
    ELSE IF t[1] = 62 THEN SkipWS(Tail(t)) = <<>>
    ELSE IF t[1] = 47 THEN Len(t) >= 2 /\ t[2] = 62 /\ SkipWS(After(t, 2)) = <<>>
    ELSE IF t = s THEN FALSE                                       \* an attribute needs white space before it
    ELSE IF ~(IsLetter(t[1]) \/ t[1] \in {95, 58}) THEN FALSE
    ELSE LET a == After(t, AttrNameLen(t))
             b == SkipWS(a) IN
         IF b # <<>> /\ b[1] = 61 THEN
             LET v == SkipWS(Tail(b)) IN
             IF v = <<>> THEN FALSE
             ELSE IF v[1] \in {34, 39} THEN (LET n == UpTo(Tail(v), v[1]) IN n >= 0 /\ TagTail(After(v, n + 2)))
             ELSE UnquotedLen(v) > 0 /\ TagTail(After(v, UnquotedLen(v)))
         ELSE TagTail(a)
CompleteTag(r) ==
    IF Len(r) >= 3 /\ r[2] = 47 THEN     \* closing tag: </name ws* >
        LET nm == After(r, 2) n == NameLen(nm) IN
        n > 0 /\ IsLetter(nm[1]) /\ (LET t == SkipWS(After(nm, n)) IN t # <<>> /\ t[1] = 62 /\ SkipWS(Tail(t)) = <<>>)
    ELSE LET nm == After(r, 1) n == NameLen(nm) IN
         n > 0 /\ IsLetter(nm[1]) /\ TagTail(After(nm, n))

(* start kind of a line (0 = none); r = the line without its leading blanks *)
Kind(line) ==
    LET r == DropBlanks(line) IN
    IF r = <<>> \/ r[1] # 60 \/ LeadCols(line, 1, 0) >= 4 THEN 0
    ELSE LET closing == Len(r) >= 2 /\ r[2] = 47
             nm == After(r, IF closing THEN 2 ELSE 1)
             n == NameLen(nm)
             name == LowerSeq(SubSeq(nm, 1, n))
             rest == After(nm, n)
         IN
         IF ~closing /\ n > 0 /\ name \in Names1 /\ (rest = <<>> \/ rest[1] \in WS \/ rest[1] = 62) THEN 1
         ELSE IF StartsWith(r, <<60, 33, 45, 45>>) THEN 2
         ELSE IF StartsWith(r, <<60, 63>>) THEN 3
         ELSE IF Len(r) >= 3 /\ r[2] = 33 /\ r[3] >= 65 /\ r[3] <= 90 THEN 4
         ELSE IF StartsWith(r, <<60, 33, 91, 67, 68, 65, 84, 65, 91>>) THEN 5
         ELSE IF n > 0 /\ name \in Names6 /\ (rest = <<>> \/ rest[1] \in WS \/ rest[1] = 62 \/ StartsWith(rest, <<47, 62>>)) THEN 6
         ELSE IF CompleteTag(r) THEN 7
         ELSE 0

(* does a line satisfy the end condition of kind k (kinds 6, 7: a blank line, which is not part of the block) *)
EndsAt(k, line) ==
    LET low == LowerSeq(line) IN
    CASE k = 1 -> \E nme \in Names1 : Contains(low, <<60, 47>> \o nme \o <<62>>)
      [] k = 2 -> Contains(line, <<45, 45, 62>>)
      [] k = 3 -> Contains(line, <<63, 62>>)
      [] k = 4 -> Contains(line, <<62>>)
      [] k = 5 -> Contains(line, <<93, 93, 62>>)
      [] OTHER -> IsBlank(line)

(* number of lines the block starting at line 1 of `lines` takes *)
RECURSIVE Extent(_, _, _)
Extent(lines, k, i) ==          \* i = index of the line under inspection (the first line has been taken)
    IF i > Len(lines) THEN Len(lines)
    ELSE IF k >= 6 THEN (IF IsBlank(lines[i]) THEN i - 1 ELSE Extent(lines, k, i + 1))
    ELSE IF EndsAt(k, DropBlanks(lines[i])) THEN i
    ELSE Extent(lines, k, i + 1)

Expected(lines) ==
    LET k == Kind(lines[1]) IN
    IF k = 0 THEN <<"other", 0>>
    ELSE IF k <= 5 /\ EndsAt(k, DropBlanks(lines[1])) THEN <<"html_block", 1>>
    ELSE <<"html_block", Extent(lines, k, 2)>>

(* second clause: a paragraph line followed by an HTML start line - kinds 1-6 interrupt, kind 7 does not *)
Interrupts(lines) == Len(lines) >= 2 /\ Kind(lines[2]) \in 1..6

Check(c) ==
    LET lines == c[1] e == Expected(lines) IN
    IF c[4] = 1 THEN      \* lines[1] is plain text: c[2] = type of the first token, c[3] = its map end
        (IF c[2] # "paragraph_open" THEN "harness:not_a_paragraph"
         ELSE IF Interrupts(lines) /\ c[3] # 1 THEN "html_does_not_interrupt_paragraph"
         ELSE IF ~Interrupts(lines) /\ Len(lines) >= 2 /\ ~IsBlank(lines[2]) /\ Kind(lines[2]) = 7 /\ c[3] < 2 THEN "kind7_interrupts_paragraph"
         ELSE "ok")
    ELSE IF e[1] = "other" THEN (IF c[2] = "html_block" THEN "html_block_without_start_condition" ELSE "ok")
    ELSE IF c[2] # "html_block" THEN "html_start_not_recognised"
    ELSE IF c[3] # e[2] THEN "html_block_extent"
    ELSE "ok"

Consume == /\ l' = l + 1 /\ verdict' = Check(Calls[l]) /\ UNCHANGED <<tid, done>>
Finish == /\ PrintT(<<"V", tid, verdict, l>>) /\ done' = TRUE /\ UNCHANGED <<tid, l, verdict>>
TraceInit == tid \in 1..Len(Traces) /\ l = 1 /\ verdict = "ok" /\ done = FALSE
TraceNext == /\ ~done
             /\ IF verdict # "ok" \/ l > Len(Calls) THEN Finish ELSE Consume
TraceSpec == TraceInit /\ [][TraceNext]_tvars
=============================================================================
