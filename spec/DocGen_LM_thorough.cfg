CONSTANTS
  Alphabet <- LM
  Core <- LMCore
  Mid <- LMCore
  MaxAll = 3
  MaxMid = 3
  MaxCore = 3
  Wrappers <- WrapM
  MaxWrap = 1
  MaxDeep = 3
  DeepWraps = 1
SPECIFICATION Spec
INVARIANT Bounded
INVARIANT Shape
INVARIANT WrapsOK
CHECK_DEADLOCK FALSE
