CONSTANTS
  Presets = {"commonmark", "js-default", "zero"}
  OptionalRules <- Rules
  OptChoices <- Opts
  MaxToggles = 2
  MaxOpts = 2
SPECIFICATION Spec
INVARIANT Supported
CHECK_DEADLOCK FALSE
