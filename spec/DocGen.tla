------------------------------- MODULE DocGen -------------------------------
(***************************************************************************)
(* Generator of input documents: the behaviours of this specification ARE  *)
(* the inputs of the input-quantified properties (C01-C10, C15-C20).       *)
(* A document is a sequence of fragments drawn from an alphabet; every     *)
(* reachable state is one document (all sequences up to a length bound,    *)
(* `Core` fragments deeper than the rest), exported once when TLC expands  *)
(* the state.  The same module serves three levels, by configuration:      *)
(*   L0 characters, L1 line shapes (joined by "\n"), L2 inline fragments.  *)
(* Fragments are ASCII strings; "{u+XXXX}" stands for that code point      *)
(* (SANY accepts ASCII only) and is expanded by the harness, injectively.  *)
(***************************************************************************)
EXTENDS Integers, Sequences, FiniteSets, TLC, Json

CONSTANTS Alphabet,   \* sequence of fragments (strings)
          Core,       \* subset of DOMAIN Alphabet used up to MaxCore
          Mid,        \* subset of DOMAIN Alphabet (containing Core) used up to MaxMid
          MaxAll,     \* every fragment: documents up to this length
          MaxMid,     \* mid fragments: documents up to this length
          MaxCore,    \* core fragments: documents up to this length
          Wrappers,   \* sequence of <<prefix, suffix>> put around the document (inline contexts)
          MaxWrap,    \* nesting bound of wrappers
          MaxDeep,    \* length bound of documents wrapped more than once
          DeepWraps   \* the Mid/Core depth tiers apply to documents with at most this many wrappers

VARIABLES doc,        \* sequence of indices into Alphabet
          wraps       \* sequence of indices into Wrappers, outermost first

WrapSeqs == UNION {[1..k -> DOMAIN Wrappers] : k \in 0..MaxWrap}

Init == doc = <<>> /\ wraps \in WrapSeqs

AllCore(d) == \A k \in DOMAIN d : d[k] \in Core
AllMid(d)  == \A k \in DOMAIN d : d[k] \in Mid

Extend(i) ==
    /\ \/ Len(doc) < (IF Len(wraps) >= 2 THEN MaxDeep ELSE MaxAll)
       \/ Len(wraps) <= DeepWraps /\ Len(doc) < MaxCore /\ AllCore(doc) /\ i \in Core
       \/ Len(wraps) <= DeepWraps /\ Len(doc) < MaxMid /\ AllMid(doc) /\ i \in Mid
    /\ doc' = Append(doc, i)
    /\ UNCHANGED wraps

Next == PrintT(ToJson([w |-> wraps, d |-> doc])) /\ \E i \in DOMAIN Alphabet : Extend(i)
Spec == Init /\ [][Next]_<<doc, wraps>>

(* generator sanity: every exported document is within the stated bounds *)
Bounded == Len(doc) <= MaxCore \/ Len(doc) <= MaxAll \/ Len(doc) <= MaxMid
WrapsOK == Len(wraps) <= MaxWrap
Shape   == Len(doc) > MaxAll => (AllCore(doc) \/ AllMid(doc))
=============================================================================
