---------------------------- MODULE LazyCompile ----------------------------
(***************************************************************************)
(* Lazy compilation of rule chains under concurrent / re-entrant callers   *)
(* (C13).  Several threads run parses on ONE instance; every parse calls   *)
(* Ruler.getRules on shared rulers, and the first call compiles the cache. *)
(* Chain lists are heap objects: a list handed out by getRules and         *)
(* appended to afterwards is the same object (as in Python).               *)
(*                                                                         *)
(* Statement granularity follows ruler.py:                                 *)
(*   G1  test `cache is None`            C1  collect chain names           *)
(*   C2  (as_found) publish `{}`          C3  create the list of a chain   *)
(*   C4  append one rule                  C5  (head) publish the built map *)
(*   G2  look the chain up               U   iterate the returned list     *)
(* Variant "as_found" = pinned commit (publish, then fill);                *)
(* Variant "head"     = build locally, publish once.                       *)
(***************************************************************************)
EXTENDS Integers, Sequences, FiniteSets, TLC

CONSTANTS Threads,   \* set of thread ids
          Rulers,    \* set of ruler ids
          RuleSeq,   \* [Rulers -> Seq([fn : Nat, alt : SUBSET STRING])]  enabled rules, in order
          Calls,     \* [Threads -> Seq([r : Rulers, c : STRING])]  getRules calls of each parse
          Variant    \* "head" | "as_found"

VARIABLES cache,  \* [Rulers -> NULL or [chain -> ref]]
          heap,   \* Seq(Seq(fn)) : list objects by reference (index)
          pc, ci, \* per thread: label, index of the current call
          loc,    \* per thread locals
          done    \* per thread: sequence of lists actually iterated, one per finished call

vars == <<cache, heap, pc, ci, loc, done>>

NULL == [pub |-> FALSE, m |-> <<>>]
IsNull(x) == ~x.pub
Pub(m) == [pub |-> TRUE, m |-> m]

Fns(rs) == [i \in DOMAIN rs |-> rs[i].fn]
ChainNames(r) == {""} \cup UNION {RuleSeq[r][i].alt : i \in DOMAIN RuleSeq[r]}
InChain(rule, c) == c = "" \/ c \in rule.alt
Expected(r, c) == Fns(SelectSeq(RuleSeq[r], LAMBDA x : InChain(x, c)))

NoLoc == [todo |-> {}, cur |-> "", idx |-> 0, lm |-> <<>>, ref |-> 0, k |-> 0, seen |-> <<>>]

Init == /\ cache = [r \in Rulers |-> NULL]
        /\ heap = <<>>
        /\ pc = [t \in Threads |-> "idle"]
        /\ ci = [t \in Threads |-> 1]
        /\ loc = [t \in Threads |-> NoLoc]
        /\ done = [t \in Threads |-> <<>>]

Cur(t) == Calls[t][ci[t]]

Start(t) == /\ pc[t] = "idle" /\ ci[t] <= Len(Calls[t])
            /\ pc' = [pc EXCEPT ![t] = "G1"]
            /\ UNCHANGED <<cache, heap, ci, loc, done>>

G1(t) == /\ pc[t] = "G1"
         /\ pc' = [pc EXCEPT ![t] = IF IsNull(cache[Cur(t).r]) THEN "C1" ELSE "G2"]
         /\ UNCHANGED <<cache, heap, ci, loc, done>>

C1(t) == /\ pc[t] = "C1"
         /\ loc' = [loc EXCEPT ![t].todo = ChainNames(Cur(t).r), ![t].lm = <<>>]
         /\ pc' = [pc EXCEPT ![t] = IF Variant = "as_found" THEN "C2" ELSE "C3"]
         /\ UNCHANGED <<cache, heap, ci, done>>

(* as_found only: the empty dict becomes visible before it is filled *)
C2(t) == /\ pc[t] = "C2"
         /\ cache' = [cache EXCEPT ![Cur(t).r] = Pub(<<>>)]
         /\ pc' = [pc EXCEPT ![t] = "C3"]
         /\ UNCHANGED <<heap, ci, loc, done>>

Put(m, c, v) == [x \in DOMAIN m \cup {c} |-> IF x = c THEN v ELSE m[x]]

C3(t) == /\ pc[t] = "C3"
         /\ IF loc[t].todo = {}
            THEN /\ pc' = [pc EXCEPT ![t] = IF Variant = "as_found" THEN "G2" ELSE "C5"]
                 /\ UNCHANGED <<cache, heap, loc>>
            ELSE \E c \in loc[t].todo :
                   LET ref == Len(heap) + 1 IN
                   /\ heap' = Append(heap, <<>>)
                   /\ loc' = [loc EXCEPT ![t].todo = @ \ {c}, ![t].cur = c, ![t].idx = 1,
                                         ![t].ref = ref, ![t].lm = Put(@, c, ref)]
                   /\ cache' = IF Variant = "as_found"
                               THEN [cache EXCEPT ![Cur(t).r] =
                                        Pub(Put(@.m, c, ref))]
                               ELSE cache
                   /\ pc' = [pc EXCEPT ![t] = "C4"]
         /\ UNCHANGED <<ci, done>>

C4(t) == /\ pc[t] = "C4"
         /\ LET rs == RuleSeq[Cur(t).r] i == loc[t].idx IN
            IF i > Len(rs)
            THEN /\ pc' = [pc EXCEPT ![t] = "C3"]
                 /\ UNCHANGED <<heap, loc>>
            ELSE /\ heap' = IF InChain(rs[i], loc[t].cur)
                            THEN [heap EXCEPT ![loc[t].ref] = Append(@, rs[i].fn)] ELSE heap
                 /\ loc' = [loc EXCEPT ![t].idx = i + 1]
                 /\ UNCHANGED pc
         /\ UNCHANGED <<cache, ci, done>>

(* head only: one assignment publishes the complete map *)
C5(t) == /\ pc[t] = "C5"
         /\ cache' = [cache EXCEPT ![Cur(t).r] = Pub(loc[t].lm)]
         /\ pc' = [pc EXCEPT ![t] = "G2"]
         /\ UNCHANGED <<heap, ci, loc, done>>

(* `self.__cache__.get(chainName, []) or []` : a missing chain gives a fresh empty list *)
G2(t) == /\ pc[t] = "G2"
         /\ LET m == cache[Cur(t).r].m c == Cur(t).c IN
            IF c \in DOMAIN m
            THEN /\ loc' = [loc EXCEPT ![t].ref = m[c], ![t].k = 1, ![t].seen = <<>>]
                 /\ UNCHANGED heap
            ELSE /\ heap' = Append(heap, <<>>)
                 /\ loc' = [loc EXCEPT ![t].ref = Len(heap) + 1, ![t].k = 1, ![t].seen = <<>>]
         /\ pc' = [pc EXCEPT ![t] = "U"]
         /\ UNCHANGED <<cache, ci, done>>

(* the caller iterates the (shared) list object, one element per step *)
U(t) == /\ pc[t] = "U"
        /\ LET lst == heap[loc[t].ref] k == loc[t].k IN
           IF k > Len(lst)
           THEN /\ done' = [done EXCEPT ![t] = Append(@, loc[t].seen)]
                /\ ci' = [ci EXCEPT ![t] = @ + 1]
                /\ pc' = [pc EXCEPT ![t] = "idle"]
                /\ loc' = [loc EXCEPT ![t] = NoLoc]
           ELSE /\ loc' = [loc EXCEPT ![t].seen = Append(@, lst[k]), ![t].k = k + 1]
                /\ UNCHANGED <<done, ci, pc>>
        /\ UNCHANGED <<cache, heap>>

Step(t) == Start(t) \/ G1(t) \/ C1(t) \/ C2(t) \/ C3(t) \/ C4(t) \/ C5(t) \/ G2(t) \/ U(t)
Next == \E t \in Threads : Step(t)
Spec == Init /\ [][Next]_vars /\ \A t \in Threads : WF_vars(Step(t))

-----------------------------------------------------------------------------
(* C13: no call may observe a half-initialised rule chain *)
NoPartialView ==
    \A t \in Threads : pc[t] = "U" => heap[loc[t].ref] = Expected(Cur(t).r, Cur(t).c)

(* every finished call iterated exactly the chain it would have iterated alone *)
ResultsAsSolo ==
    \A t \in Threads : \A i \in DOMAIN done[t] :
        done[t][i] = Expected(Calls[t][i].r, Calls[t][i].c)

(* what justifies treating getRules as atomic in the trace specification:
   a published cache is always complete *)
PublishedIsComplete ==
    \A r \in Rulers : ~IsNull(cache[r]) =>
        /\ DOMAIN cache[r].m = ChainNames(r)
        /\ \A c \in DOMAIN cache[r].m : heap[cache[r].m[c]] = Expected(r, c)

AllDone == \A t \in Threads : ci[t] > Len(Calls[t])
Termination == <>AllDone
=============================================================================
