CONSTANTS
  Alpha = {32, 9, 10, 120}
  MaxLen = 7
  ScanTab = 4
SPECIFICATION ScanSpec
INVARIANT ScanRefinesTable
INVARIANT TableWellFormed
CHECK_DEADLOCK FALSE
