SPECIFICATION TraceSpec
CHECK_DEADLOCK FALSE
