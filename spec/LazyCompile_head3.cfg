CONSTANTS
  Threads <- MCThreads3
  Rulers <- MCRulers1
  RuleSeq <- MCRuleSeq1
  Calls <- MCCalls3
  Variant = "head"
SPECIFICATION Spec
INVARIANT NoPartialView
INVARIANT ResultsAsSolo
INVARIANT PublishedIsComplete
CHECK_DEADLOCK FALSE
