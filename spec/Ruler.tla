------------------------------- MODULE Ruler -------------------------------
(***************************************************************************)
(* Exact state machine of markdown_it.ruler.Ruler: an ordered registry of  *)
(* rule records with a lazily compiled cache of rule chains.               *)
(*                                                                         *)
(* One action per public method and outcome.  `Variant` selects the        *)
(* statement order of the raising paths: "head" (cache invalidated on      *)
(* every path that changes a flag) or "as_found" (pinned commit: the       *)
(* invalidation came after the loop that can raise).                       *)
(* Serves C11; instantiated by Facade for C10/C12/C14.                     *)
(***************************************************************************)
EXTENDS Integers, Sequences, FiniteSets, TLC, Json

CONSTANTS Names,     \* rule names that can be registered
          Ghost,     \* names used in lookups but never registered
          Chains,    \* alternative (terminator) chain names, all # ""
          MaxRules,  \* bound on the number of registered rules
          MaxFn,     \* bound on fresh function ids
          MaxArgs,   \* bound on the length of a name list
          MaxDepth,  \* bound on history length (state constraint)
          Variant    \* "head" | "as_found"

VARIABLES rules,   \* Seq([name, enabled, fn, alt])
          cache,   \* [valid : BOOLEAN, ch : chain -> Seq(fn)]
          nextFn,  \* next fresh function id
          ret,     \* observation of the last call   (hidden by VIEW)
          hist     \* history of calls               (hidden by VIEW)

vars == <<rules, cache, nextFn, ret, hist>>
view == <<rules, cache, nextFn>>

AllChains == Chains \cup {""}
AllNames  == Names \cup Ghost

Invalid == [valid |-> FALSE, ch |-> <<>>]

-----------------------------------------------------------------------------
(* Pure operators shared with the trace specification *)

RECURSIVE FindFrom(_, _, _)
FindFrom(rs, n, i) == IF i > Len(rs) THEN 0
                      ELSE IF rs[i].name = n THEN i ELSE FindFrom(rs, n, i + 1)
Find(rs, n) == FindFrom(rs, n, 1)        \* Ruler.__find__: first match, 0 = not found

Fns(rs) == [i \in DOMAIN rs |-> rs[i].fn]

(* What the property calls "the rules reported as active, in registration
   order, filtered by chain membership". *)
Reported(rs, c) ==
    Fns(SelectSeq(rs, LAMBDA r : r.enabled /\ (c = "" \/ c \in r.alt)))

(* Ruler.__compile__, statement by statement: chain names are collected from
   ENABLED rules only, then each chain is filled in registration order. *)
ChainNames(rs) == {""} \cup UNION {rs[i].alt : i \in {j \in DOMAIN rs : rs[j].enabled}}
Compile(rs) == [c \in ChainNames(rs) |->
                  Fns(SelectSeq(rs, LAMBDA r : r.enabled /\ ~(c # "" /\ c \notin r.alt)))]

Lookup(ch, c) == IF c \in DOMAIN ch THEN ch[c] ELSE <<>>

(* what a parse would apply now for chain c: getRules(c) *)
Applied(rs, ca, c) == IF ca.valid THEN Lookup(ca.ch, c) ELSE Lookup(Compile(rs), c)

(* enable/disable loop: names left to right, first unknown name raises unless ignored *)
RECURSIVE Walk(_, _, _, _, _)
Walk(rs, names, val, ign, acc) ==
    IF names = <<>> THEN [rules |-> rs, raised |-> FALSE, found |-> acc]
    ELSE LET n == Head(names)
             i == Find(rs, n)
         IN IF i = 0
            THEN IF ign THEN Walk(rs, Tail(names), val, ign, acc)
                        ELSE [rules |-> rs, raised |-> TRUE, found |-> acc]
            ELSE Walk([rs EXCEPT ![i].enabled = val], Tail(names), val, ign, Append(acc, n))

AllOff(rs) == [i \in DOMAIN rs |-> [rs[i] EXCEPT !.enabled = FALSE]]

NewRule(n, f, alt) == [name |-> n, enabled |-> TRUE, fn |-> f, alt |-> alt]

InsertAt(rs, i, r) == SubSeq(rs, 1, i - 1) \o <<r>> \o SubSeq(rs, i, Len(rs))   \* r becomes rs'[i]

ActiveNames(rs) == [i \in DOMAIN SelectSeq(rs, LAMBDA r : r.enabled) |->
                        SelectSeq(rs, LAMBDA r : r.enabled)[i].name]
AllRuleNames(rs) == [i \in DOMAIN rs |-> rs[i].name]

NameLists == UNION {[1..k -> AllNames] : k \in 1..MaxArgs}

-----------------------------------------------------------------------------
Init == /\ rules = <<>>
        /\ cache = Invalid
        /\ nextFn = 1
        /\ ret = [out |-> "init"]
        /\ hist = <<>>

Log(e) == hist' = Append(hist, e)

Push(n, alt) ==
    /\ Len(rules) < MaxRules /\ nextFn <= MaxFn
    /\ rules' = Append(rules, NewRule(n, nextFn, alt))
    /\ cache' = Invalid
    /\ nextFn' = nextFn + 1
    /\ ret' = [out |-> "ok"]
    /\ Log([op |-> "push", name |-> n, alt |-> alt, fn |-> nextFn])

(* before / after: KeyError on an unknown reference name, nothing changed *)
Insert(op, ref, n, alt) ==
    /\ Len(rules) < MaxRules /\ nextFn <= MaxFn
    /\ LET i == Find(rules, ref) IN
         IF i = 0
         THEN /\ UNCHANGED <<rules, cache>>
              /\ ret' = [out |-> "KeyError"]
         ELSE /\ rules' = InsertAt(rules, IF op = "before" THEN i ELSE i + 1, NewRule(n, nextFn, alt))
              /\ cache' = Invalid
              /\ ret' = [out |-> "ok"]
    /\ nextFn' = nextFn + 1      \* the caller created the function either way
    /\ Log([op |-> op, ref |-> ref, name |-> n, alt |-> alt, fn |-> nextFn])

Before(ref, n, alt) == Insert("before", ref, n, alt)
After(ref, n, alt)  == Insert("after", ref, n, alt)

(* at: replace function and alt of the first rule of that name; position and flag kept *)
At(ref, alt) ==
    /\ nextFn <= MaxFn
    /\ LET i == Find(rules, ref) IN
         IF i = 0
         THEN /\ UNCHANGED <<rules, cache>>
              /\ ret' = [out |-> "KeyError"]
         ELSE /\ rules' = [rules EXCEPT ![i].fn = nextFn, ![i].alt = alt]
              /\ cache' = Invalid
              /\ ret' = [out |-> "ok"]
    /\ nextFn' = nextFn + 1
    /\ Log([op |-> "at", ref |-> ref, alt |-> alt, fn |-> nextFn])

(* enable / disable / enableOnly *)
Toggle(op, names, ign) ==
    LET start == IF op = "enableOnly" THEN AllOff(rules) ELSE rules
        w     == Walk(start, names, op # "disable", ign, <<>>)
    IN /\ rules' = w.rules
       /\ cache' = IF w.raised /\ Variant = "as_found" THEN cache ELSE Invalid
       /\ ret' = IF w.raised THEN [out |-> "KeyError"] ELSE [out |-> "ok", found |-> w.found]
       /\ UNCHANGED nextFn
       /\ Log([op |-> op, names |-> names, ign |-> ign])

Enable(names, ign)     == Toggle("enable", names, ign)
Disable(names, ign)    == Toggle("disable", names, ign)
EnableOnly(names, ign) == Toggle("enableOnly", names, ign)

(* getRules: compiles when the cache is absent (the observer changes the state, R4) *)
GetRules(c) ==
    /\ cache' = IF cache.valid THEN cache ELSE [valid |-> TRUE, ch |-> Compile(rules)]
    /\ ret' = [out |-> "ok", chain |-> Lookup(cache'.ch, c)]
    /\ UNCHANGED <<rules, nextFn>>
    /\ Log([op |-> "getRules", chain |-> c])

Next ==
    \/ \E n \in Names, alt \in SUBSET Chains : Push(n, alt)
    \/ \E ref \in AllNames, n \in Names, alt \in SUBSET Chains : Before(ref, n, alt)
    \/ \E ref \in AllNames, n \in Names, alt \in SUBSET Chains : After(ref, n, alt)
    \/ \E ref \in AllNames, alt \in SUBSET Chains : At(ref, alt)
    \/ \E ns \in NameLists, ign \in BOOLEAN : Enable(ns, ign)
    \/ \E ns \in NameLists, ign \in BOOLEAN : Disable(ns, ign)
    \/ \E ns \in NameLists, ign \in BOOLEAN : EnableOnly(ns, ign)
    \/ \E c \in AllChains \cup {"nochain"} : GetRules(c)

Spec == Init /\ [][Next]_vars

(* Same behaviours; additionally prints the history of every state TLC expands (each distinct
   in-model state is expanded exactly once), which is the replay plan for the conformance run. *)
NextP == PrintT(ToJson(hist)) /\ Next
SpecP == Init /\ [][NextP]_vars

Bound == Len(hist) <= MaxDepth

-----------------------------------------------------------------------------
(* Properties (C11) *)

TypeOK ==
    /\ \A i \in DOMAIN rules : /\ rules[i].name \in Names
                               /\ rules[i].enabled \in BOOLEAN
                               /\ rules[i].fn \in 1..MaxFn
                               /\ rules[i].alt \subseteq Chains
    /\ cache.valid \in BOOLEAN
    /\ Len(rules) <= MaxRules

(* fresh ids: no two rules share a function *)
FnsDistinct == \A i, j \in DOMAIN rules : i # j => rules[i].fn # rules[j].fn

(* a compiled cache is the compilation of the current registry *)
Coherent == cache.valid => cache.ch = Compile(rules)

(* the statement of C11: applied = reported, main chain and every named chain *)
AppliedIsReported ==
    \A c \in AllChains \cup {"nochain"} : Applied(rules, cache, c) = Reported(rules, c)

(* the compile step itself is right whatever the cache says *)
CompileIsReported ==
    \A c \in AllChains \cup {"nochain"} : Lookup(Compile(rules), c) = Reported(rules, c)

(* set semantics of the reported set, as an action property over the last call *)
Idx(rs)    == {i \in DOMAIN rs : rs[i].enabled}
Known(ns)  == {Find(rules, ns[k]) : k \in DOMAIN ns} \ {0}
Last       == hist'[Len(hist')]
SetSemantics ==
    [][ LET e == Last IN
        /\ (e.op = "enable" /\ ret'.out = "ok") =>
               /\ Idx(rules') = Idx(rules) \cup Known(e.names)
               /\ AllRuleNames(rules') = AllRuleNames(rules)
        /\ (e.op = "disable" /\ ret'.out = "ok") =>
               /\ Idx(rules') = Idx(rules) \ Known(e.names)
               /\ AllRuleNames(rules') = AllRuleNames(rules)
        /\ (e.op = "enableOnly" /\ ret'.out = "ok") =>
               /\ Idx(rules') = Known(e.names)
               /\ AllRuleNames(rules') = AllRuleNames(rules)
        /\ (e.op \in {"enable", "disable", "enableOnly"} /\ ret'.out = "ok") =>
               \A k \in DOMAIN e.names : (Find(rules, e.names[k]) = 0) => e.ign
        /\ (e.op = "push" ) =>
               /\ rules' = Append(rules, NewRule(e.name, e.fn, e.alt))
        /\ (e.op = "before" /\ ret'.out = "ok") =>
               LET i == Find(rules, e.ref) IN
               /\ rules'[i] = NewRule(e.name, e.fn, e.alt)
               /\ rules'[i + 1] = rules[i]
               /\ Len(rules') = Len(rules) + 1
        /\ (e.op = "after" /\ ret'.out = "ok") =>
               LET i == Find(rules, e.ref) IN
               /\ rules'[i + 1] = NewRule(e.name, e.fn, e.alt)
               /\ rules'[i] = rules[i]
               /\ Len(rules') = Len(rules) + 1
        /\ (e.op = "at" /\ ret'.out = "ok") =>
               LET i == Find(rules, e.ref) IN
               /\ rules'[i] = [rules[i] EXCEPT !.fn = e.fn, !.alt = e.alt]
               /\ Len(rules') = Len(rules)
        /\ (e.op = "getRules") => rules' = rules
      ]_vars

(* a lookup by an unknown reference name (before/after/at) changes nothing *)
FailedLookupIsInert ==
    [][ (Last.op \in {"before", "after", "at"} /\ ret'.out = "KeyError")
          => (rules' = rules /\ cache' = cache) ]_vars

(* history export per generated transition (as a CONSTRAINT; tiny configs only) *)
PrintEdge == PrintT(ToJson(hist))

=============================================================================
