CONSTANTS
  Leads <- MCLeads
  Schemes <- MCSchemes
  Payloads <- MCPayloads
  NProd = 1
SPECIFICATION Spec
CHECK_DEADLOCK FALSE
