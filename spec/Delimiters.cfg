CONSTANTS
  Markers = {42, 95}
  MaxLen = 3
  MaxRuns = 3
  Variant = "code"
SPECIFICATION Spec
INVARIANT OptIsNaive
INVARIANT WellPaired
CHECK_DEADLOCK FALSE
