---------------------------- MODULE MCDocAlgebra ----------------------------
EXTENDS DocAlgebra
MCMarkers == <<[m |-> "-", ordered |-> 0, num |-> 0], [m |-> "*", ordered |-> 0, num |-> 0],
               [m |-> "+", ordered |-> 0, num |-> 0], [m |-> "1.", ordered |-> 1, num |-> 1],
               [m |-> "7)", ordered |-> 1, num |-> 7], [m |-> "10.", ordered |-> 1, num |-> 10],
               [m |-> "0.", ordered |-> 1, num |-> 0], [m |-> "123456789)", ordered |-> 1, num |-> 123456789]>>
ExportLast == Len(ops) = MaxDepth => PrintT(ToJson(ops))
=============================================================================
