----------------------------- MODULE Alphabets -----------------------------
(***************************************************************************)
(* The input alphabets of the generators (single source of truth; the      *)
(* harness reads documents only through DocGen).  "{u+XXXX}" denotes the   *)
(* code point U+XXXX.                                                      *)
(*  L1: line shapes chosen so that every block rule, every terminator      *)
(*      chain and every container/blank/EOF combination is reachable       *)
(*      within the exhaustive bounds; L1Core marks the subset explored     *)
(*      deepest.  L2: inline fragments.  L0: characters.                   *)
(***************************************************************************)
EXTENDS Integers, Sequences
L1 == <<
    "a", "b c", "a  ", "a\\", "", "  ",
    "\t", "  a", "   a", "    a", "     a", "\ta",
    "> a", ">a", ">", "> ", ">  ", "> > a",
    ">\ta", " > a", "    > a", "- a", "-", "* a",
    "+ a", "-   a", "-     a", " - a", "  - b", "   - c",
    "    - d", "-\ta", "1. a", "1.", "2) x", "10. y",
    "1234567890. z", "0. w", "---", "***", "- - -", "___",
    " ---", "--", "===", "=", "# a", "#",
    "#a", "####### a", "## a ##", "# a \\#", "```", "````",
    "``` i", "~~~", "~~~ a`b", "``` a`b", "  ```", "<div>",
    "</div>", "<!--", "-->", "<?", "?>", "<![CDATA[",
    "]]>", "<pre>", "</pre>", "<a>", "<x-y z=\"1\">", "[a]: /u",
    "[a]:", "/u \"t\"", "\"t\"", "[a]", "[A]: /v 't'", "[a]: <b c>",
    "[", "]", "[a]: /u x", "a|b", "|a|b|", "-|-",
    "|-|-|", ":-|-:", "--|", "|", "a\\|b|c", "> - a",
    "- > a", "> 1. a", ">     a", "- ```", "> ```", "> a|b",
    "> -|-", "*a*", "`c", "<b>x</b> \"q\"", "  > ---", "1. > - x",
    "\t\t- t",
    "```{u+000c}", "~~~ &#x3000;", "[a]: /u \"t&#10;u\"", "> [a]: /u \"x&NewLine;y\"", "- [a]: /u 'p\\\nq'", "```{u+00a0}x",
    "  - > q", "   > - r", "  1. > s", "    > t",
    "||a|", "|a||",
    ">  ```", "#######", "   >  ~~~", "###### ", "#\t#",
    "[a]: javascript:x", "[A]: data:text/html,y 't'", "- [a]: /u", "> [a]: /u",
    "- <!--", "  x -->", "1. <pre>", "- <?",
    "> ===", "> ---",
    "# a ##", "### a #", "`````", "~~~~"
>>
L1Core == {1, 5, 8, 10, 13, 15, 22, 23, 30, 33, 39, 45, 47, 53, 60, 72, 76, 82, 84, 90, 95}
L2 == <<
    "a", " ", "*", "**", "***", "_", "__", "*a*",
    "**b**", "_c_", "`", "``", "`d`", "`` e` ``", "[", "]",
    "(", ")", "[f](/u)", "[g](/u \"t\")", "[h][r]", "[r]", "![", "![i](/s)",
    "](", "](/u)", "<", ">", "<b>", "</b>", "<a href=\"x\">", "</a>",
    "<http://x.y>", "<m@x.y>", "&", "&amp;", "&#35;", "&#x22;", "&bogus;", "\\",
    "\\*", "\\\\", "\\a", "\n", "  \n", "\\\n", "~", "~~",
    "~~j~~", "\"", "'", "--", "...", "(c)", "!", "#",
    "|", ":", "http://x.y", "{u+00e9}", "{u+200b}", "{u+00a0}", "{u+1f600}", "+-",
    "'s", "\"q\"", "1", "<!-- c -->", "<?p?>", "&#0;", "&#xD800;", "![a *b*](/s 't')",
    "(tM)", "(Tm)", "(C)", "(R)", "\\!!!!", "\\?", ",,", "\\,,"
>>
L1Mid == {129, 130, 125, 126, 127, 123, 124, 1, 4, 5, 7, 8, 9, 10, 11, 12, 13, 14, 15, 16, 22, 23, 24, 26, 27, 29, 30, 31, 33, 34, 39, 40, 45, 46, 47, 48, 53, 55, 56, 60, 61, 72, 73, 74, 76, 77, 82, 83, 84, 85, 90, 91, 92, 93, 94, 95, 96, 97, 98, 99}
L2Core == {1, 2, 3, 6, 11, 15, 23, 26, 33, 44, 48, 50}
L2Mid == {1, 2, 3, 4, 6, 8, 11, 13, 15, 16, 17, 18, 19, 22, 23, 24, 26, 27, 29, 30, 33, 35, 36, 40, 41, 44, 45, 48, 50, 51, 52, 57}
L2All == 1..80
L0 == <<
    "a", "{u+00a0}", " ", "\t", "\n", ">", "-", "*", "_", "#", "`", "~",
    "[", "]", "(", ")", "\\", "&", ";", "<", "!", "|", "\"", "'",
    ".", ":", "=", "/", "{u+1f600}", "{u+0000}", "{u+000d}", "1", "+"
>>
(* inline contexts an L2 document is placed in: <<prefix, suffix>> *)
Wrap2 == <<
    <<"[", "](/u)">>, <<"![", "](/s)">>, <<"*", "*">>, <<"**", "**">>, <<"_", "_">>, <<"~~", "~~">>,
    <<"[", "][r]">>, <<"![", "][r]">>, <<"`", "`">>, <<"<a>", "</a>">>, <<"[x](/u \"", "\")">>,
    <<"\"", "\"">>, <<"'", "'">>, <<"(", ")">>
>>
NoWrap == <<>>
(* C04/C05/C09: fragments dense in HTML metacharacters; every fragment that looks like renderer-made
   markup (<em>, title=, &amp;) has a twin outside the renderer's vocabulary (<b>, onx=, &copy;) *)
LM == <<
    "<", ">", "\"", "'", "&", ";", "=", "/", "\\", " ", "x",
    "<em>", "<b>", "</em>", "</b>", "<a href=\"x\">", "<a onx=\"x\">", " title=\"y\"", " onx=\"y\"",
    "&amp;", "&copy;", "&#60;", "&lt;", "<!--", "<br>", "<br />", "<img src=x>", "&quot;", "&#x22;",
    "<script>", "`", "*", "]", ")", "|", "\n"
>>
LMCore == 1..36
(* render paths a fragment sequence is placed in: <<prefix, suffix>> *)
WrapM == <<
    <<"", "">>, <<"`", "`">>, <<"    ", "">>, <<"```\n", "\n```">>, <<"``` ", "\nx\n```">>, <<"~~~ a ", "\nx\n~~~">>,
    <<"[t](", ")">>, <<"[t](<", ">)">>, <<"[t](/u \"", "\")">>, <<"[t](/u '", "')">>, <<"[t](/u (", "))">>,
    <<"![", "](/s)">>, <<"![a](/s \"", "\")">>, <<"![a](", ")">>, <<"<http://", ">">>, <<"<mailto:", "@x.y>">>,
    <<"|", "|b|\n|-|:-:|\n|c|d|">>, <<"|a|b|\n|:-|-:|\n|", "|d|">>, <<"|a|b|\n|", "|-|\n|c|d|">>,
    <<"# ", "">>, <<"a  \n", "">>, <<"[r]\n\n[r]: ", "">>, <<"[r]\n\n[r]: /u \"", "\"">>, <<"[", "]\n\n[", "]: /u">>,
    <<"*", "*">>, <<"**", "**">>, <<"~~", "~~">>, <<"> ", "">>, <<"- ", "">>, <<"1. ", "">>,
    <<"<div>", "</div>">>, <<"<div>\n", "\n</div>">>, <<"[t](", " \"T\")">>, <<"![", "][r]\n\n[r]: /s">>,
    <<"\"", "\"">>, <<"'", "'">>, <<"a\n===\n", "">>, <<"99999", ". x">>
>>
(* C05: producers of a destination: <<prefix, suffix>> around it *)
WrapU == <<
    <<"[t](", ")">>, <<"[t](<", ">)">>, <<"[t](", " \"T\")">>, <<"![a](", ")">>, <<"![a](<", ">)">>,
    <<"[t][r]\n\n[r]: ", "">>, <<"[r]\n\n[r]:\n", "\n\"T\"">>, <<"[r][]\n\n[r]: <", ">">>, <<"![a][r]\n\n[r]: ", "">>,
    <<"<", ">">>, <<"a [t](", ") b ![i](", ")">>,
    \* the inline form where its label is ALSO a defined reference (a rejected destination falls back to the
    \* shortcut reference), alone and inside enclosing brackets that pre-scan it silently
    <<"[r](", ")\n\n[r]: /ok">>, <<"[see [r](", ") there]\n\n[r]: /ok">>, <<"[[r](", ")](http://a)\n\n[r]: /ok">>,
    <<"![pic [r](", ")]\n\n[r]: /ok">>, <<"[a [r](", ") b][r]\n\n[r]: /ok">>, <<"*[x ![r](", ") y*]\n\n[r]: /ok">>
>>
(* C16: link text / destination / title alphabets for the reference-form = inline-form law *)
RText == <<"", "t", "a *b*", "`c`", "![i](/s)", "x\\]y", "&amp;", "{u+00e9}", "a_b_", "<b>">>
RDest == <<"/u", "http://x.y/a?b=c&d", "<a b>", "/p\\(q", "%20x", "&amp;", "a\\*b", "#f", "/(x)", "{u+00e9}", "<>", "/u\\\"", "x&#35;y", "mailto:a@b.c", "./\\[z\\]", "/w\\(x\\)", "/e\\)", "/o\\(">>
RTitle == <<"", "\"T\"", "'T'", "(T)", "\"a\\\"b\"", "'a&quot;b'", "\"p (q)\"", "\"m\nn\"", "'{u+00e9} &amp; \\*'", "(a\\)b)", "\"\"", "\"p\\\nq\"", "'p\\\nq\\\nr'", "\"a&#10;b\"">>
(* C19: fragments rich in quotes, escaped / entity-written quotes and replacement triggers *)
LQ == <<
    "\"", "'", "a", " ", "\\\"", "\\'", "&quot;", "&#39;", "&apos;", "*", "`x\"y'`", "<b t=\"'\">", "[l](/u \"t'--\")",
    "<http://x.y/'--(c)>", "--", "...", "(c)", "+-", ",,", "????", "\n", "!....", "---", "'s", "\"a\"", "(TM)", "\\(c)", "\\--", "&#40;c)",
    "![i'\"](/s)", "_", "1", ".", "-", "(r)", "\\.\\.", "?!?!", "'\"'",
    "<a--b@x--y.zz>", "<u..v+-w@e.fr>", "<p????!!!!@e.fr>", "<irc:a--b...(c)>",
    "<http://x.y/'a'>", "<a'b@e.fr>", "<http://x.y/\"q\">",
    "(&#99;)", "(t&#109;)", "(&#x52;)", "&#45;&#45;", ".&#46;.", "+&#45;", "&#34;a&#34;",
    "(tM)", "(Tm)", "\\!!!!", "\\!\\!\\!\\!", "!!!", "\\?", "\\,,", "\\+-", "\\-\\-"
>>
LQCore == 1..39
(* byte-level fragments for the command-line entry point: "{x+HH}" is the byte HH *)
LB == <<
    "a", "\n", "> ", "* ", "[", "](", "`", "{x+80}", "{x+c3}", "{x+c3}{x+a9}", "{x+ed}{x+a0}{x+80}",
    "{x+ff}", "{x+00}", "{x+f0}{x+9f}{x+98}", "{x+f0}{x+9f}{x+98}{x+80}", "{x+c0}{x+af}", "\r", "\t",
    "&#xDFFF;", "&#57343;", "&#xD800;", "![&#xdfff;](/u '&#xDFFF;')"
>>
LBCore == 1..18
(* deep-nesting / repetition families: <<unit, middle, closing unit>>, document = unit^n middle closing^n *)
Nest == <<
    <<">", "a", "">>, <<"> ", "a", "">>, <<"- ", "a", "">>, <<"1. ", "a", "">>, <<"[", "a", "]">>,
    <<"[", "a", "](/u)">>, <<"![", "a", "](/u)">>, <<"*", "a", "*">>, <<"_", "a", "_">>, <<"**", "a ", "">>,
    <<"`", "a", "">>, <<"<", "a", ">">>, <<"&", "a", ";">>, <<"\\", "a", "">>, <<"~~", "a", "~~">>,
    <<"[a](", "b", ")">>, <<"> - ", "a", "">>, <<"(", "a", ")">>, <<"*a **b ", "c", "">>, <<"<div>\n", "a", "\n</div>">>,
    <<"[![", "a", "](/s)](/u)">>, <<"\"", "a", "\"">>, <<"#", " a", "#">>, <<"|a", "\n|-", "|-">>, <<"  ", "- a", "">>
>>
NestSizes == <<1, 2, 3, 5, 17, 18, 19, 20, 21, 22, 40, 96, 97, 98, 99, 100, 101, 102, 200, 400>>
(* Unicode twins: per row, the ASCII members of a character class, then non-ASCII characters that SOME
   general-purpose string predicate or library routine (digit / space / line-break / letter-case tests,
   regular-expression classes, strip / split helpers) puts into the same class although Markdown does not.
   Documents are re-spelled with every member of a class replaced by one twin (harness: gen.twins). *)
Twins == <<
    <<"0123456789", "{u+00b2}", "{u+2460}", "{u+0663}", "{u+0969}", "{u+1d7cf}", "{u+2155}", "{u+ff11}">>,
    <<" ", "{u+2003}", "{u+3000}", "{u+000b}", "{u+000c}", "{u+001c}", "{u+0085}", "{u+1680}", "{u+2028}", "{u+feff}", "{u+200b}">>,
    <<"\n", "{u+2028}", "{u+2029}", "{u+0085}", "{u+000b}", "{u+000c}", "{u+001c}", "{u+001d}", "{u+001e}">>,
    <<"\t", "{u+000b}", "{u+2003}", "{u+001f}">>,
    <<"abcdefghijklmnopqrstuvwxyzABCDEFGHIJKLMNOPQRSTUVWXYZ", "{u+00e9}", "{u+00df}", "{u+0130}", "{u+0131}", "{u+01c5}", "{u+fb01}",
      "{u+212a}", "{u+017f}", "{u+00aa}", "{u+2126}", "{u+1e9e}", "{u+0345}">>,
    <<"-", "{u+2013}", "{u+2212}", "{u+2010}", "{u+00ad}">>,
    <<"*", "{u+ff0a}", "{u+2217}">>, <<"#", "{u+ff03}">>, <<">", "{u+ff1e}", "{u+203a}">>, <<"`", "{u+ff40}", "{u+00b4}">>,
    <<".", "{u+3002}", "{u+2024}", "{u+ff0e}">>, <<")", "{u+ff09}">>, <<"(", "{u+ff08}">>, <<"[", "{u+ff3b}">>, <<"]", "{u+ff3d}">>,
    <<"\\", "{u+ff3c}">>, <<"&", "{u+ff06}">>, <<"\"", "{u+201c}", "{u+201d}", "{u+ff02}">>, <<"'", "{u+2019}", "{u+ff07}">>,
    <<"<", "{u+ff1c}", "{u+2039}">>, <<"|", "{u+ff5c}", "{u+00a6}">>, <<"~", "{u+ff5e}", "{u+02dc}">>, <<"_", "{u+ff3f}">>,
    <<"=", "{u+ff1d}">>, <<":", "{u+ff1a}">>, <<"!", "{u+ff01}", "{u+00a1}">>, <<"+", "{u+ff0b}">>, <<"/", "{u+ff0f}", "{u+2044}">>,
    <<";", "{u+ff1b}", "{u+037e}">>
>>
(* L3: line shapes as a PRODUCT of container prefixes and leaves (the hand-picked L1 kept missing single shapes
   such as an indented fence inside a quote or a bare run of seven hashes); documents of one and two lines *)
(* Sources that LOOK like the start of a block construct but stay one paragraph (a block rule tries them and gives *)
(* up - whatever it did before giving up must not show), and one-line texts in which a link attempt looks ahead     *)
(* over unmatched code-span / emphasis delimiters before it fails                                                   *)
ParaPrefixes == <<"[a]: ", "[a]:", "[a]: /u x ", "[a]: <", "[a]: /u \"t", "[a] : ", "\\[a]: ", "a|b ", "|", "= ", "1986\\. ", "<x ",
                  "*** a ", "--- a ", "`` ` ", "~~ ~ ", "#a ", "+a ", "1.a ">>
Lookahead == <<"[`b`][`] c", "[*a*][*] c", "[`b`](` c", "[a][`] `c`", "![`b`][`] d", "[`b`][``] `` e", "[`b` [c](`",
               "[x](<` `y`", "[x](/u \"` `y`", "[`b`][c] `", "*[`b`][`]* c", "[a]: [`b`][`] c", "[`b`][`]", "[[`b`]][`] c">>

(* Container tails: a container block, then k lines that are empty INSIDE the container, then m blank lines   *)
(* outside it, then a following block - where a container's map ends, and whose lines the empties are.       *)
TailHeads   == <<"> - a", "> 1. a", "> - a\n> - b", "- > a", "> > a", "> # h", "> ```\n> x", ">     c", "> a", "- a\n  - b",
                 "1. - a", "> | a |\n> |---|", "> [r]: /u", "> <div>", "- a\n\n  b", "> - > a">>
TailEmpties == <<">", "> ", ">  ", ">\t", "  ", "">>
TailTails   == <<"b", "", "- c", "> d", "    e", "  f">>
(* Fenced blocks whose body holds fence-like lines: opener, body lines, closer ("" = runs to the end) *)
FenceOpen == <<"```", "````", "`````", "~~~", "~~~~", "``` i", "````i">>
FenceBody == <<"```", "``", "````", "~~~", "~~~~", "x", "", " ```", "   ````", "    ```", "``` ", "```x", "> ```", "- ```">>

LinePrefixes == <<"", " ", "   ", "    ", "\t", "> ", ">", ">  ", " > ", "> > ", "- ", "-   ", "-\t", "1. ", "10. ", "- > ", "> - ",
                  "  - ", "   > ">>
LineLeaves == <<"a", "", "  ", "a  ", "a\\", "```", "````", "``` i", "~~~", "#", "# h", "####### ", "#######", "## a ##", "---",
                "***", "- - -", "___", "===", "=", "--", "<div>", "</div>", "<!--", "-->", "<pre>", "<x>", "[a]: /u", "[a]", "\"t\"",
                "a|b", "-|-", "|a|", "||a|", "*a*", "`c", "1.", "-", "+ b", "2) x", "    c", "\tc">>
L3 == [k \in 1..(Len(LinePrefixes) * Len(LineLeaves)) |->
         LinePrefixes[((k - 1) \div Len(LineLeaves)) + 1] \o LineLeaves[((k - 1) % Len(LineLeaves)) + 1]]
L3None == {}
(* delimiter-dense inline fragments: every sequence of up to four, bare and inside a link / image / emphasis,
   is executed (not sampled) by C02 and C04 - the post-processing of delimiter runs (emphasis, strikethrough,
   odd runs, runs next to a closing bracket) is where token order and nesting are rearranged *)
LD == <<"*", "**", "_", "~~", "~~~", "a", " ", "[", "](/u)", "`">>
LDAll == 1..10
WrapD == << <<"[", "](/u)">>, <<"![", "](/s)">>, <<"*", "*">> >>
(* HtmlBlocks.tla: tag names of start conditions 1 and 6 (CommonMark 0.30) and the line shapes of its documents *)
HtmlNames1 == <<"script", "pre", "style", "textarea">>
HtmlNames6 == <<"address", "article", "aside", "base", "basefont", "blockquote", "body", "caption", "center", "col", "colgroup",
    "dd", "details", "dialog", "dir", "div", "dl", "dt", "fieldset", "figcaption", "figure", "footer", "form", "frame", "frameset",
    "h1", "h2", "h3", "h4", "h5", "h6", "head", "header", "hr", "html", "iframe", "legend", "li", "link", "main", "menu", "menuitem",
    "nav", "noframes", "ol", "optgroup", "option", "p", "param", "section", "source", "summary", "table", "tbody", "td", "tfoot",
    "th", "thead", "title", "tr", "track", "ul">>
HtmlLines == <<
    "<pre>", "<PRE x>", "<pre", "<prex>", "</pre>", "a</PRE>b", "<script>x</script>", "<style", "<textarea>",
    "<!--", "-->", "x-->y", "<!-- c -->", "<?", "?>", "<?x?>", "<!A", "<!a", ">", "<!DOCTYPE h>", "<![CDATA[", "]]>", "<![cdata[",
    "<div>", "<DIV", "</div>", "<div/>", "<div/", "<p", "<p>t", "</P >", "<hr/>", "<h1>", "<h7>", "<td", "<divx>", "<li>",
    "<x>", "</x>", "<x a=b>", "<x a='b' c>", "<x", "<x >t", "<span>t", "<a href=\"u\">", "</a >", "<x/>", "<1>", "<-x>",
    "", " ", "text", "t <div>", "  <div>", "   <!--", "    <div>", "\t<pre>", "- a", "> q", "# h", "***"
>>
(* characters explored one position deeper *)
L0Core == 1..17
=============================================================================
