--------------------------- MODULE DelimitersDefs ---------------------------
(***************************************************************************)
(* Pairing of emphasis-like delimiters (rules_inline/balance_pairs.py):    *)
(* growth beyond the listed properties - the inline machine's             *)
(* post-processing step on which C02's "pairs up like balanced brackets"   *)
(* rests.                                                                  *)
(*                                                                         *)
(* A delimiter is [m, len, tok, end, open, close]: marker code, length of  *)
(* its run, index of its text token, index of the matching closer (-1),    *)
(* can open / can close.  Indices are 0-based as in the code; D(ds, i) is  *)
(* delimiter i of the sequence ds.                                         *)
(*                                                                         *)
(*  Naive(ds)  WHAT pairing means (CommonMark "process emphasis" without   *)
(*             any bookkeeping for speed): closers are taken left to       *)
(*             right; a closer pairs with the nearest preceding delimiter  *)
(*             that is outside its own run, not inside an earlier pair,    *)
(*             has the same marker, can open, is unpaired, and passes the  *)
(*             rule of three; a pair removes everything from opener to     *)
(*             closer; after a pair the run is cut behind the closer.      *)
(*  Opt(ds)    HOW the code does it in linear time: the `jumps` skip list  *)
(*             and the `openersBottom` lower bounds, transcribed           *)
(*             statement by statement.                                     *)
(*  Delimiters.tla lets TLC check Naive = Opt on every delimiter sequence  *)
(*  of a small scope; DelimitersTrace.tla validates recorded calls of the  *)
(*  real processDelimiters against both.                                   *)
(***************************************************************************)
EXTENDS Integers, Sequences, FiniteSets, TLC

D(ds, i) == ds[i + 1]
N(ds) == Len(ds)
SetD(ds, i, f, v) == [ds EXCEPT ![i + 1] = [@ EXCEPT ![f] = v]]

(* rule of three *)
Odd(o, c) == /\ (o.close \/ c.open)
             /\ (o.len + c.len) % 3 = 0
             /\ (o.len % 3 # 0 \/ c.len % 3 # 0)

Max(S) == CHOOSE x \in S : \A y \in S : y <= x

-----------------------------------------------------------------------------
(* reference semantics *)
SameRun(ds, cut, j, c) ==      \* delimiters j..c form one run: same marker, adjacent tokens, no cut in between
    \A k \in j..c : /\ D(ds, k).m = D(ds, c).m
                    /\ (k > j => D(ds, k).tok = D(ds, k - 1).tok + 1 /\ k \notin cut)
Header(ds, cut, c) == CHOOSE j \in 0..c : SameRun(ds, cut, j, c) /\ (j = 0 \/ ~SameRun(ds, cut, j - 1, c))

RECURSIVE NaiveFrom(_, _, _, _)
NaiveFrom(ds, gone, cut, c) ==
    IF c >= N(ds) THEN ds
    ELSE LET d == D(ds, c) IN
         IF ~d.close THEN NaiveFrom(ds, gone, cut, c + 1)
         ELSE LET h == Header(ds, cut, c)
                  cand == {o \in 0..(h - 1) : /\ o \notin gone
                                               /\ D(ds, o).m = d.m /\ D(ds, o).open /\ D(ds, o).end < 0
                                               /\ ~Odd(D(ds, o), d)}
              IN IF cand = {} THEN NaiveFrom(ds, gone, cut, c + 1)
                 ELSE LET o == Max(cand)
                          ds2 == SetD(SetD(SetD(ds, o, "end", c), o, "close", FALSE), c, "open", FALSE)
                      IN NaiveFrom(ds2, gone \cup (o..c), cut \cup {c + 1}, c + 1)
Naive(ds) == NaiveFrom(ds, {}, {}, 0)

-----------------------------------------------------------------------------
(* the code: processDelimiters.  st = [ds, jumps (0-based via J), ob, header, lastTok] *)
J(st, i) == st.jumps[i + 1]
SetJ(st, i, v) == [st EXCEPT !.jumps = [@ EXCEPT ![i + 1] = v]]
ObIdx(c) == (IF c.open THEN 3 ELSE 0) + (c.len % 3) + 1
ObGet(st, c) == IF c.m \in DOMAIN st.ob THEN st.ob[c.m][ObIdx(c)] ELSE -1
ObSet(st, c, v) ==
    LET cur == IF c.m \in DOMAIN st.ob THEN st.ob[c.m] ELSE <<-1, -1, -1, -1, -1, -1>> IN
    [st EXCEPT !.ob = [k \in DOMAIN st.ob \cup {c.m} |-> IF k = c.m THEN [cur EXCEPT ![ObIdx(c)] = v] ELSE st.ob[k]]]

(* the inner `while openerIdx > minOpenerIdx` ; returns the state after the loop and whether it matched *)
RECURSIVE Search(_, _, _, _)
Search(st, closerIdx, openerIdx, minIdx) ==
    IF openerIdx <= minIdx THEN [st |-> st, hit |-> FALSE]
    ELSE LET o == D(st.ds, openerIdx) c == D(st.ds, closerIdx) IN
         IF o.m # c.m THEN Search(st, closerIdx, openerIdx - J(st, openerIdx) - 1, minIdx)
         ELSE IF o.open /\ o.end < 0 /\ ~Odd(o, c) THEN
              LET lastJump == IF openerIdx > 0 /\ ~D(st.ds, openerIdx - 1).open THEN J(st, openerIdx - 1) + 1 ELSE 0
                  s1 == SetJ(SetJ(st, closerIdx, closerIdx - openerIdx + lastJump), openerIdx, lastJump)
                  ds2 == SetD(SetD(SetD(s1.ds, closerIdx, "open", FALSE), openerIdx, "end", closerIdx), openerIdx, "close", FALSE)
              IN [st |-> [s1 EXCEPT !.ds = ds2, !.lastTok = -2], hit |-> TRUE]
         ELSE Search(st, closerIdx, openerIdx - J(st, openerIdx) - 1, minIdx)

RECURSIVE OptFrom(_, _)
OptFrom(st0, closerIdx) ==
    IF closerIdx >= N(st0.ds) THEN st0.ds
    ELSE LET c0 == D(st0.ds, closerIdx)
             s1 == [st0 EXCEPT !.jumps = Append(@, 0)]
             hdr == IF D(s1.ds, s1.header).m # c0.m \/ s1.lastTok # c0.tok - 1 THEN closerIdx ELSE s1.header
             s2 == [s1 EXCEPT !.header = hdr, !.lastTok = c0.tok]
         IN IF ~c0.close THEN OptFrom(s2, closerIdx + 1)
            ELSE LET minIdx == ObGet(s2, c0)
                     startIdx == hdr - J(s2, hdr) - 1
                     r == Search(s2, closerIdx, startIdx, minIdx)
                     \* after a failed search the lower bound is written with the closer as it is NOW
                     s3 == IF r.hit THEN r.st ELSE ObSet(r.st, D(r.st.ds, closerIdx), startIdx)
                 IN OptFrom(s3, closerIdx + 1)
Opt(ds) == IF ds = <<>> THEN ds
           ELSE OptFrom([ds |-> ds, jumps |-> <<>>, ob |-> <<>>, header |-> 0, lastTok |-> -2], 0)
=============================================================================
