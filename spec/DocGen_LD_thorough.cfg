CONSTANTS
  Alphabet <- LD
  Core <- LDAll
  Mid <- LDAll
  MaxAll = 5
  MaxMid = 5
  MaxCore = 5
  Wrappers <- WrapD
  MaxWrap = 1
  MaxDeep = 1
  DeepWraps = 1
SPECIFICATION Spec
INVARIANT Bounded
INVARIANT WrapsOK
CHECK_DEADLOCK FALSE
