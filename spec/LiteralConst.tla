----------------------------- MODULE LiteralConst -----------------------------
(* Exports the constants of LiteralDefs.tla to the harness. *)
EXTENDS LiteralDefs
VARIABLE v
Init == v = 0
Stop == FALSE /\ UNCHANGED v
ASSUME PrintT(ToJson([contexts |-> Contexts, alphabet |-> Alphabet, bsonly |-> BackslashOnly, named |-> Named]))
=============================================================================
