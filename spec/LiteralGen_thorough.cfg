CONSTANTS
  MaxAll = 3
  MaxCore = 4
SPECIFICATION Spec
CHECK_DEADLOCK FALSE
