CONSTANTS
  Alphabet <- L0
  Core <- L0Core
  Mid <- L0Core
  MaxAll = 3
  MaxMid = 4
  MaxCore = 4
  Wrappers <- NoWrap
  MaxWrap = 0
  MaxDeep = 0
  DeepWraps = 0
SPECIFICATION Spec
INVARIANT Bounded
INVARIANT Shape
INVARIANT WrapsOK
CHECK_DEADLOCK FALSE
