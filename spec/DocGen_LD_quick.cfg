CONSTANTS
  Alphabet <- LD
  Core <- LDAll
  Mid <- LDAll
  MaxAll = 4
  MaxMid = 4
  MaxCore = 4
  Wrappers <- WrapD
  MaxWrap = 1
  MaxDeep = 1
  DeepWraps = 1
SPECIFICATION Spec
INVARIANT Bounded
INVARIANT WrapsOK
CHECK_DEADLOCK FALSE
