--------------------------- MODULE TypographerTrace ---------------------------
(***************************************************************************)
(* C19: typographic replacements are local to text and never touch         *)
(* structure or literals.  Trace: the flattened token streams of one       *)
(* document with the typographer off and on (children in line), as pairs   *)
(*   [text, auto, roff, ron, coff, con, prot]                              *)
(* roff / ron: the token without its content (canonical JSON; for non-text *)
(* tokens the whole token), coff / con: the content of a text token as     *)
(* code points, prot: per code point of coff whether it was written as a   *)
(* backslash escape or an entity (observed on the off-parse with text_join *)
(* disabled), auto: the text of an autolink.  sq / rp: which of            *)
(* smartquotes / replacements is enabled; q: the four quote strings.       *)
(*                                                                         *)
(* Lock-step acceptor: same number of tokens; every token equal except the *)
(* content of text tokens, which is matched by a nondeterministic walk     *)
(* (TLC searches; accepted iff some walk reaches the end):                 *)
(*   equal code points advance both;                                       *)
(*   sq: at an unprotected ' or " the on-text may continue with the same   *)
(*       character, an apostrophe U+2019, or any of the four quote strings *)
(*       (of any length, including empty);                                 *)
(*   rp: at unprotected positions the documented rewrites                  *)
(*       (c) (r) (tm) -> (C)(R)(TM) signs, +- -> plus-minus, two or more   *)
(*       dots -> ellipsis (or ".." after ? or !), four or more ?/! ->      *)
(*       three, two or more commas -> one, --- -> em dash, -- -> en dash.  *)
(* Protected code points and autolink text must be byte-identical.         *)
(* rw: per kind of sign <<signs added by the typographer, triggers written  *)
(* literally in the source>> (escapes and character references blanked     *)
(* out of the source by the harness): added <= literal, a bound that does  *)
(* not depend on how the parser tokenises escapes and entities.            *)
(***************************************************************************)
EXTENDS Integers, Sequences, FiniteSets, TLC, Json, IOUtils

VARIABLES tid, k, i, j, done
tvars == <<tid, k, i, j, done>>
Data   == JsonDeserialize(IOEnv.TRACE_FILE)
Traces == Data.traces
Tr     == Traces[tid]
T      == Tr.toks
Tok    == T[k]
CO     == Tok.coff
CN     == Tok.con

At(s, p, w) == p + Len(w) - 1 <= Len(s) /\ SubSeq(s, p, p + Len(w) - 1) = w
Free(p, n) == \A x \in p..(p + n - 1) : x <= Len(CO) /\ Tok.prot[x] = 0    \* n unprotected code points of coff at p

RECURSIVE RunLen(_, _, _)
(* length of the run of UNPROTECTED code points of coff in S starting at p (an escaped character is a
   separate token when the rewrite happens, so it ends the run) *)
RunLen(s, p, S) == IF p <= Len(s) /\ s[p] \in S /\ Tok.prot[p] = 0 THEN 1 + RunLen(s, p + 1, S) ELSE 0
Lower(c) == IF c >= 65 /\ c <= 90 THEN c + 32 ELSE c

InText == k <= Len(T) /\ T[k].text = 1 /\ T[k].roff = T[k].ron

(* token level *)
NonTextOK == k <= Len(T) /\ T[k].text = 0 /\ T[k].roff = T[k].ron
NextTok == /\ NonTextOK /\ k' = k + 1 /\ i' = 1 /\ j' = 1 /\ UNCHANGED <<tid, done>>
EndText == /\ InText /\ i > Len(CO) /\ j > Len(CN) /\ k' = k + 1 /\ i' = 1 /\ j' = 1 /\ UNCHANGED <<tid, done>>

(* character level; each G.. is the guard, each step advances i by a and j by b *)
Adv(a, b) == i' = i + a /\ j' = j + b /\ UNCHANGED <<tid, k, done>>

GSame == InText /\ i <= Len(CO) /\ j <= Len(CN) /\ CO[i] = CN[j]
Same == GSame /\ Adv(1, 1)

Mutable == InText /\ Tok.auto = 0 /\ i <= Len(CO)

QuoteAlts == {<<8217>>} \cup {Tr.q[x] : x \in 1..4}
GQuote(w) == Mutable /\ Tr.sq = 1 /\ CO[i] \in {34, 39} /\ Free(i, 1) /\ At(CN, j, w)
Quote == \E w \in QuoteAlts : GQuote(w) /\ Adv(1, Len(w))

(* replacements: <<off pattern length, on string>> alternatives computed at the current position *)
Scoped == IF Mutable /\ CO[i] = 40 /\ i + 2 <= Len(CO) /\ CO[i + 2] = 41 /\ Lower(CO[i + 1]) = 99 THEN {<<3, <<169>>>>}
          ELSE IF Mutable /\ CO[i] = 40 /\ i + 2 <= Len(CO) /\ CO[i + 2] = 41 /\ Lower(CO[i + 1]) = 114 THEN {<<3, <<174>>>>}
          ELSE IF Mutable /\ CO[i] = 40 /\ i + 3 <= Len(CO) /\ CO[i + 3] = 41 /\ Lower(CO[i + 1]) = 116 /\ Lower(CO[i + 2]) = 109
               THEN {<<4, <<8482>>>>}
          ELSE {}
Rare ==
    IF ~Mutable THEN {}
    ELSE LET c == CO[i] IN
         (IF c = 43 /\ i + 1 <= Len(CO) /\ CO[i + 1] = 45 THEN {<<2, <<177>>>>} ELSE {})
         \cup (IF c = 46 /\ RunLen(CO, i, {46}) >= 2
               THEN {<<RunLen(CO, i, {46}), <<8230>>>>, <<RunLen(CO, i, {46}), <<46, 46>>>>} ELSE {})
         \cup (IF c \in {63, 33} /\ RunLen(CO, i, {63, 33}) >= 4
               THEN {<<RunLen(CO, i, {63, 33}), <<63, 63, 63>>>>, <<RunLen(CO, i, {63, 33}), <<33, 33, 33>>>>} ELSE {})
         \cup (IF c = 44 /\ RunLen(CO, i, {44}) >= 2 THEN {<<RunLen(CO, i, {44}), <<44>>>>} ELSE {})
         \cup (IF c = 45 /\ RunLen(CO, i, {45}) >= 3 THEN {<<3, <<8212>>>>} ELSE {})
         \cup (IF c = 45 /\ RunLen(CO, i, {45}) >= 2 THEN {<<2, <<8211>>>>} ELSE {})
Rewrites == {r \in Scoped \cup Rare : Tr.rp = 1 /\ Free(i, r[1]) /\ At(CN, j, r[2])}
Rewrite == \E r \in Rewrites : Adv(r[1], Len(r[2]))

CanMove == NonTextOK \/ (InText /\ i > Len(CO) /\ j > Len(CN)) \/ GSame
           \/ (\E w \in QuoteAlts : GQuote(w)) \/ Rewrites # {}

Verdict ==
    IF Len(Tr.toks) # Tr.non THEN "token_count"
    ELSE IF k > Len(T) THEN
         \* the walk accepted; independent source-side bound: per kind of sign, the typographer added at most as
         \* many as there are triggers written literally (not as escapes / character references) in the source
         (IF \E x \in DOMAIN Tr.rw : Tr.rw[x][1] > Tr.rw[x][2] THEN "more_signs_than_literal_triggers" ELSE "ok")
    ELSE IF T[k].roff # T[k].ron THEN (IF T[k].text = 1 THEN "text_token_shape_changed" ELSE "non_text_token_changed")
    ELSE IF T[k].auto = 1 THEN "autolink_text_changed"
    ELSE "text_changed_outside_documented_rewrites"

Step == ~done /\ Len(Tr.toks) = Tr.non /\ (NextTok \/ EndText \/ Same \/ Quote \/ Rewrite)
Report == /\ ~done /\ (k > Len(T) \/ ~CanMove \/ Len(Tr.toks) # Tr.non)
          /\ PrintT(<<"V", tid, Verdict, k>>)
          /\ done' = TRUE /\ UNCHANGED <<tid, k, i, j>>

TraceInit == tid \in 1..Len(Traces) /\ k = 1 /\ i = 1 /\ j = 1 /\ done = FALSE
TraceNext == Step \/ Report
TraceSpec == TraceInit /\ [][TraceNext]_tvars
=============================================================================
