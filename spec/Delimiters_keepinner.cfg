CONSTANTS
  Markers = {42, 95}
  MaxLen = 1
  MaxRuns = 4
  Variant = "keep_inner"
SPECIFICATION Spec
INVARIANT OptIsNaive
INVARIANT WellPaired
CHECK_DEADLOCK FALSE
