----------------------------- MODULE CostFamilies -----------------------------
(***************************************************************************)
(* C20: the catalogue of scalable pathological input families.  A family   *)
(* is [name, kind, pre, unit, mid, close, post]; the document of size n is *)
(*   kind "rep"    pre unit^n mid close^n post                             *)
(*   kind "grow"   pre (unit^1 sep unit^2 sep ... unit^n) post, sep = mid  *)
(*   kind "indent" n lines, line k = 2k spaces + unit                      *)
(* The family name is the key of a known finding.                          *)
(***************************************************************************)
EXTENDS TLC, Json, Sequences, Integers
VARIABLE v
Init == v = 0
Stop == FALSE /\ UNCHANGED v
F(name, kind, pre, unit, mid, close, post) ==
    [name |-> name, kind |-> kind, pre |-> pre, unit |-> unit, mid |-> mid, close |-> close, post |-> post]
R(name, unit, mid, close) == F(name, "rep", "", unit, mid, close, "")
Families == <<
  R("open_brackets", "[", "a", ""), R("close_brackets", "]", "a", ""), R("nested_brackets", "[", "a", "]"),
  R("bracket_paren", "[](", "a", ""), R("link_openers", "[a](", "b", ""), R("nested_links", "[", "a", "](/u)"),
  R("image_openers", "![", "a", ""), R("nested_images", "![", "a", "](/u)"), R("bracket_pairs", "[]", "a", ""),
  R("stars", "*", "a", ""), R("nested_stars", "*", "a", "*"), R("underscores", "_", "a", "_"),
  R("strong_openers", "**a ", "b", ""), R("mixed_emphasis", "*a **b ", "c", ""), R("star_underscore", "*_", "a", ""),
  R("emphasis_pairs", "*a* ", "b", ""), R("tildes", "~~", "a", ""), R("nested_strike", "~~a ", "b", "~~"),
  F("backtick_runs", "grow", "", "`", " ", "", ""), R("backticks", "`", "a", ""), R("code_spans", "`a` ", "b", ""),
  R("ampersands", "&", "a", ""), R("entities", "&amp;", "a", ""), R("numeric_openers", "&#", "a", ""),
  R("less_than", "<", "a", ""), R("comment_openers", "<!--", "a", ""), R("html_tags", "<b>", "a", ""),
  R("autolinks", "<http://a.b> ", "a", ""), R("tag_openers", "<a ", "b", ""),
  R("backslashes", "\\", "a", ""), R("escaped", "\\*", "a", ""),
  R("quote_markers", ">", "a", ""), R("quote_markers_sp", "> ", "a", ""), R("list_nest", "- ", "a", ""),
  R("ordered_nest", "1. ", "a", ""), R("quote_list_nest", "> - ", "a", ""),
  F("lazy_lines", "rep", "> a\n", "b\n", "", "", ""), F("list_lazy", "rep", "- a\n", "b\n", "", "", ""),
  F("table_rows", "rep", "|a|b|\n|-|-|\n", "|c|d|\n", "", "", ""), F("table_cells", "rep", "", "|a", "|\n", "|-", "|\n"),
  F("refdefs", "rep", "", "[a]: /u\n", "", "", ""), F("refdefs_distinct_lines", "rep", "", "[a]: /u\n\n", "", "", ""),
  F("unclosed_fence", "rep", "```\n", "a\n", "", "", ""), R("paragraph_words", "a ", "b", ""),
  F("paragraph_lines", "rep", "", "a\n", "", "", ""), F("hard_breaks", "rep", "", "a  \n", "b", "", ""),
  F("headings", "rep", "", "# a\n", "", "", ""), F("setext", "rep", "", "a\n===\n", "", "", ""),
  F("rules", "rep", "", "---\n", "", "", ""), F("code_lines", "rep", "", "    a\n", "", "", ""),
  F("list_items", "rep", "", "- a\n", "", "", ""), F("ordered_items", "rep", "", "1. a\n", "", "", ""),
  F("indent_nest", "indent", "", "- a\n", "", "", ""), F("blank_lines", "rep", "a", "\n", "b", "", ""),
  F("html_blocks", "rep", "", "<div>\na\n</div>\n\n", "", "", ""), R("quotes_typographic", "\"a' ", "b", ""),
  R("dashes", "-- ", "a", ""), R("parens", "(", "a", ")"),
  \* blocks separated by white-space-only lines that are indented like code (editors leave them behind)
  F("refdefs_indented_blank_sep", "rep", "", "[a]: /u\n    \n", "", "", ""), F("refdefs_tab_blank_sep", "rep", "", "[a]: /u 't'\n\t\n", "", "", ""),
  F("paragraphs_indented_blank_sep", "rep", "", "a\n     \n", "", "", ""), F("list_items_indented_blank_sep", "rep", "", "- a\n      \n", "", "", ""),
  F("quote_indented_blank_lines", "rep", "", "> a\n>      \n", "", "", ""), F("headings_blank_sep", "rep", "", "a\n    \n---\n", "", "", "")
>>
ASSUME PrintT(ToJson(Families))
=============================================================================
