CONSTANTS
  Alphabet <- L2
  Core <- L2Core
  Mid <- L2Core
  MaxAll = 3
  MaxMid = 3
  MaxCore = 3
  Wrappers <- Wrap2
  MaxWrap = 2
  MaxDeep = 2
SPECIFICATION Spec
INVARIANT Bounded
INVARIANT Shape
INVARIANT WrapsOK
CHECK_DEADLOCK FALSE
