CONSTANTS
  Alphabet <- L2
  Core <- L2Core
  Mid <- L2Mid
  MaxAll = 3
  MaxMid = 4
  MaxCore = 6
  Wrappers <- Wrap2
  MaxWrap = 2
  MaxDeep = 2
  DeepWraps = 0
SPECIFICATION Spec
INVARIANT Bounded
INVARIANT Shape
INVARIANT WrapsOK
CHECK_DEADLOCK FALSE
