CONSTANTS
  Body <- MCBody
  MaxLen = 4
  Ticks = {1, 2, 3}
SPECIFICATION Spec
CHECK_DEADLOCK FALSE
