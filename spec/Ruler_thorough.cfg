CONSTANTS
  Names = {"a", "b", "c"}
  Ghost = {"zz"}
  Chains = {"p", "q"}
  MaxRules = 3
  MaxFn = 4
  MaxArgs = 2
  MaxDepth = 6
  Variant = "head"
SPECIFICATION SpecP
VIEW view
CONSTRAINT Bound
INVARIANT TypeOK
INVARIANT FnsDistinct
INVARIANT Coherent
INVARIANT AppliedIsReported
INVARIANT CompileIsReported
PROPERTY SetSemantics
PROPERTY FailedLookupIsInert
