CONSTANTS
  Inst = {1}
  Presets = {"commonmark", "js-default", "zero"}
  ToggleNames = {"table", "emphasis", "strikethrough", "verif_block", "verif_core", "reference", "linkify", "nosuch"}
  MaxNames = 3
  OptChoices <- OptNone
  RRNames = {}
  Docs = {"D2"}
  Defines <- MCDefines
  FaultSites = {}
  MaxCtx = 1
  MaxDepth = 5
  ChainToggleChains = {"inline", "inline2"}
  Variant = "head"
SPECIFICATION SpecP
VIEW view
CONSTRAINT Bound
INVARIANT TypeOK
PROPERTY Isolation
PROPERTY ResetRestores
PROPERTY CallsAreInert
PROPERTY RoutesAgree
