CONSTANTS
  Leads <- EOne
  Schemes <- ESchemes
  Payloads <- EOne
  NProd = 1
SPECIFICATION Spec
CHECK_DEADLOCK FALSE
