------------------------------- MODULE EnvTrace -------------------------------
(***************************************************************************)
(* C16: validates the env store and the seeding law on observed parses.    *)
(* Trace (one script of Env.tla executed on the real parser):              *)
(*   hist   "fresh" | "seeded" | "twice"                                   *)
(*   k      line shift of D in the one-go document (lines of R + 1)        *)
(*   defs   definitions in processing order: <<class, id, b, e>> with the  *)
(*          map each must be recorded with in the observed history         *)
(*   uses   classes used by the paragraphs of D, in order                  *)
(*   obs    observed: refs (set of <<id, b, e>>), dups (sequence), hrefs   *)
(*          (id each use resolved to, 0 = unresolved), html, toks          *)
(*   one    the same observations for parse(R + "\n" + D) with a fresh env *)
(* Clauses: env_refs / env_dups (first definition wins, later ones are     *)
(* duplicates, each recorded once with the map of its own lines),          *)
(* resolution (a use resolves to the first definition of its label class   *)
(* - classes = Unicode case folding + white-space collapsing - or not at   *)
(* all), output_differs_from_one_go, tokens_differ_from_one_go,            *)
(* env_differs_from_one_go.                                                *)
(***************************************************************************)
EXTENDS Integers, Sequences, FiniteSets, TLC, Json, IOUtils

VARIABLES tid, l, verdict, done
tvars == <<tid, l, verdict, done>>
Data   == JsonDeserialize(IOEnv.TRACE_FILE)
Traces == Data.traces
Tr     == Traces[tid]

RECURSIVE Fold(_, _, _)
Fold(defs, rf, dp) ==          \* the first-wins store of Env.tla
    IF defs = <<>> THEN [refs |-> rf, dups |-> dp]
    ELSE LET d == Head(defs) IN
         IF \E x \in rf : x[1] = d[1] THEN Fold(Tail(defs), rf, Append(dp, d))
         ELSE Fold(Tail(defs), rf \cup {d}, dp)

ToSet(s) == {s[k] : k \in DOMAIN s}
Strip(d) == <<d[2], d[3], d[4]>>                  \* <<id, b, e>>
Expected == Fold(Tr.defs, {}, <<>>)
FirstOf(c) == IF \E x \in Expected.refs : x[1] = c THEN (CHOOSE x \in Expected.refs : x[1] = c)[2] ELSE 0

ShiftMap(m, k) == IF m = <<>> THEN <<>> ELSE <<m[1] + k, m[2] + k>>
ShiftToks(ts, k) == [i \in DOMAIN ts |-> [ts[i] EXCEPT !.map = ShiftMap(@, k)]]

(* in the one-go parse the definitions of D (and duplicates found in D) carry maps shifted by k;
   those of R carry the same maps *)
Expected1 == Fold(Tr.defs1, {}, <<>>)

Verdict ==
    LET O == Tr.obs IN
    IF ToSet(O.refs) # {Strip(x) : x \in Expected.refs} THEN "env_refs"
    ELSE IF O.dups # [i \in DOMAIN Expected.dups |-> Strip(Expected.dups[i])] THEN "env_dups"
    ELSE IF O.hrefs # [i \in DOMAIN Tr.uses |-> FirstOf(Tr.uses[i])] THEN "resolution"
    ELSE IF Tr.hist = "fresh" THEN "ok"
    ELSE LET N == Tr.one IN
         IF ToSet(N.refs) # {Strip(x) : x \in Expected1.refs} THEN "env_refs_one_go"
         ELSE IF N.dups # [i \in DOMAIN Expected1.dups |-> Strip(Expected1.dups[i])] THEN "env_dups_one_go"
         ELSE IF N.hrefs # O.hrefs THEN "resolution_differs_from_one_go"
         ELSE IF N.html # O.html THEN "output_differs_from_one_go"
         ELSE IF N.toks # ShiftToks(O.toks, Tr.k) THEN "tokens_differ_from_one_go"
         ELSE "ok"

Consume == /\ l' = l + 1 /\ verdict' = Verdict /\ UNCHANGED <<tid, done>>
Finish == /\ PrintT(<<"V", tid, verdict, l>>) /\ done' = TRUE /\ UNCHANGED <<tid, l, verdict>>
TraceInit == tid \in 1..Len(Traces) /\ l = 1 /\ verdict = "ok" /\ done = FALSE
TraceNext == /\ ~done
             /\ IF verdict # "ok" \/ l > 1 THEN Finish ELSE Consume
TraceSpec == TraceInit /\ [][TraceNext]_tvars
=============================================================================
