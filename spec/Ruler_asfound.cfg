CONSTANTS
  Names = {"a", "b"}
  Ghost = {"zz"}
  Chains = {"p"}
  MaxRules = 3
  MaxFn = 4
  MaxArgs = 2
  MaxDepth = 5
  Variant = "as_found"
SPECIFICATION Spec
VIEW view
CONSTRAINT Bound
INVARIANT TypeOK
INVARIANT FnsDistinct
INVARIANT Coherent
INVARIANT AppliedIsReported
INVARIANT CompileIsReported
PROPERTY SetSemantics
PROPERTY FailedLookupIsInert
