----------------------------- MODULE RenderTrace -----------------------------
(***************************************************************************)
(* The HTML renderer (renderer.py) as a function from a token stream to    *)
(* its output - growth beyond the listed properties (./check system); the  *)
(* mechanism under C04 / C18.  The specification COMPUTES the expected     *)
(* output of every token from the token alone and its two neighbours:      *)
(*   dispatch    inline -> its children, each by rule or default;          *)
(*               code_inline, code_block, fence, image, hardbreak,         *)
(*               softbreak, text, text_special, html_block, html_inline,   *)
(*               definition have rules; every other type takes the default *)
(*   default     hidden -> nothing; "\n" before a block-level non-closing  *)
(*               tag that follows a hidden token; "<" / "</" tag attrs     *)
(*               [" /" for a void tag under xhtmlOut] ">" and a line feed  *)
(*               after a block-level tag unless it opens directly onto an  *)
(*               inline / hidden token or onto its own closing tag         *)
(*   attrs       in order, name and value escaped (& < > ")                *)
(*   image       alt := text of the description (text verbatim, nested     *)
(*               images recursively, soft breaks as line feeds), set at    *)
(*               its existing position or appended                         *)
(*   fence       class langPrefix + first word of the info appended to the *)
(*               class attribute; exact only when the info holds neither   *)
(*               "\" nor "&" (unescaping is not modelled: then only the    *)
(*               frame <pre><code ...>...</code></pre> is required)        *)
(* Trace: [opts |-> [x, br, lp], toks |-> <<token>>, html |-> code points] *)
(*   token = [ty, tag, n, hid, blk, at |-> <<<<k, v>>>>, c, info, kids]    *)
(* Verdict: "ok", or "render:<type of the first token whose expected       *)
(* output is not where the real output continues>".                        *)
(***************************************************************************)
EXTENDS Integers, Sequences, FiniteSets, TLC, Json, IOUtils

VARIABLES tid, l, verdict, done
tvars == <<tid, l, verdict, done>>
Data   == JsonDeserialize(IOEnv.TRACE_FILE)
Traces == Data.traces
Tr     == Traces[tid]
O      == Tr.opts

LT == <<60>>  GT == <<62>>  LF == <<10>>  SP == <<32>>  QUOT == <<34>>
AMP_  == <<38, 97, 109, 112, 59>>       \* &amp;
LT_   == <<38, 108, 116, 59>>           \* &lt;
GT_   == <<38, 103, 116, 59>>           \* &gt;
QUOT_ == <<38, 113, 117, 111, 116, 59>> \* &quot;

RECURSIVE Esc(_)
Esc(s) == IF s = <<>> THEN <<>>
          ELSE (CASE s[1] = 38 -> AMP_ [] s[1] = 60 -> LT_ [] s[1] = 62 -> GT_ [] s[1] = 34 -> QUOT_ [] OTHER -> <<s[1]>>)
               \o Esc(Tail(s))

RECURSIVE Attrs(_)
Attrs(at) == IF at = <<>> THEN <<>>
             ELSE SP \o Esc(at[1][1]) \o <<61, 34>> \o Esc(at[1][2]) \o QUOT \o Attrs(Tail(at))

BR == IF O.x = 1 THEN <<60, 98, 114, 32, 47, 62, 10>> ELSE <<60, 98, 114, 62, 10>>     \* <br />\n  |  <br>\n

(* the default rule; ts = the sequence the token stands in, i its index *)
Default(ts, i) ==
    LET t == ts[i] IN
    IF t.hid = 1 THEN <<>>
    ELSE (IF t.blk = 1 /\ t.n # -1 /\ i > 1 /\ ts[i - 1].hid = 1 THEN LF ELSE <<>>)
         \o (IF t.n = -1 THEN <<60, 47>> ELSE LT) \o t.tag \o Attrs(t.at)
         \o (IF t.n = 0 /\ O.x = 1 THEN <<32, 47>> ELSE <<>>)
         \o GT
         \o (IF t.blk = 1 /\ ~(t.n = 1 /\ i < Len(ts)
                               /\ (ts[i + 1].ty = "inline" \/ ts[i + 1].hid = 1
                                   \/ (ts[i + 1].n = -1 /\ ts[i + 1].tag = t.tag)))
             THEN LF ELSE <<>>)

(* image descriptions *)
RECURSIVE AsText(_)
AsText(ks) ==
    IF ks = <<>> THEN <<>>
    ELSE LET k == ks[1] IN
         (CASE k.ty = "text" -> k.c
            [] k.ty = "image" -> AsText(k.kids)
            [] k.ty = "softbreak" -> LF
            [] OTHER -> <<>>) \o AsText(Tail(ks))

ALT == <<97, 108, 116>>
SetAttr(at, key, v) ==
    IF \E j \in DOMAIN at : at[j][1] = key
    THEN [j \in DOMAIN at |-> IF at[j][1] = key THEN <<key, v>> ELSE at[j]]
    ELSE Append(at, <<key, v>>)

(* fence *)
WS == {9, 10, 11, 12, 13, 28, 29, 30, 31, 32, 133, 160, 5760, 8232, 8233, 8239, 8287, 12288} \cup (8192..8202)
RECURSIVE DropWS(_)
DropWS(s) == IF s # <<>> /\ s[1] \in WS THEN DropWS(Tail(s)) ELSE s
RECURSIVE Word(_)
Word(s) == IF s = <<>> \/ s[1] \in WS THEN <<>> ELSE <<s[1]>> \o Word(Tail(s))
CLASS == <<99, 108, 97, 115, 115>>
PRECODE == <<60, 112, 114, 101, 62, 60, 99, 111, 100, 101>>                               \* <pre><code
CODEPRE == <<60, 47, 99, 111, 100, 101, 62, 60, 47, 112, 114, 101, 62, 10>>               \* </code></pre>\n
JoinAttr(at, key, v) ==
    IF \E j \in DOMAIN at : at[j][1] = key
    THEN [j \in DOMAIN at |-> IF at[j][1] = key THEN <<key, at[j][2] \o SP \o v>> ELSE at[j]]
    ELSE Append(at, <<key, v>>)
Plain(info) == \A k \in DOMAIN info : info[k] \notin {92, 38}
Fence(t) ==
    LET lang == Word(DropWS(t.info)) IN
    PRECODE \o Attrs(IF lang = <<>> THEN t.at ELSE JoinAttr(t.at, CLASS, O.lp \o lang)) \o GT \o Esc(t.c) \o CODEPRE

StartsWith(s, p) == Len(s) >= Len(p) /\ SubSeq(s, 1, Len(p)) = p
EndsWith(s, p) == Len(s) >= Len(p) /\ SubSeq(s, Len(s) - Len(p) + 1, Len(s)) = p

(* expected output of token i of sequence ts; "exact" = FALSE only for a fence with an escaped info string *)
RECURSIVE Inline(_, _)
Frag(ts, i) ==
    LET t == ts[i] IN
    CASE t.ty = "inline" -> Inline(t.kids, 1)
      [] t.ty = "code_inline" -> <<60, 99, 111, 100, 101>> \o Attrs(t.at) \o GT \o Esc(t.c) \o <<60, 47, 99, 111, 100, 101, 62>>
      [] t.ty = "code_block" -> <<60, 112, 114, 101>> \o Attrs(t.at) \o <<62, 60, 99, 111, 100, 101, 62>> \o Esc(t.c) \o CODEPRE
      [] t.ty = "fence" -> Fence(t)
      [] t.ty = "image" -> Default([ts EXCEPT ![i].at = SetAttr(t.at, ALT, AsText(t.kids))], i)
      [] t.ty = "hardbreak" -> BR
      [] t.ty = "softbreak" -> IF O.br = 1 THEN BR ELSE LF
      [] t.ty \in {"text", "text_special"} -> Esc(t.c)
      [] t.ty \in {"html_block", "html_inline"} -> t.c
      [] t.ty = "definition" -> <<>>
      [] OTHER -> Default(ts, i)
Inline(ks, i) == IF i > Len(ks) THEN <<>> ELSE Frag(ks, i) \o Inline(ks, i + 1)

Exact(t) == t.ty # "fence" \/ Plain(t.info)

(* walk the top-level stream against the real output *)
RECURSIVE Walk(_, _)
Walk(i, rest) ==      \* rest = the part of the real output not yet accounted for
    IF i > Len(Tr.toks) THEN (IF rest = <<>> THEN "ok" ELSE "render:trailing_output")
    ELSE LET t == Tr.toks[i] IN
         IF Exact(t) THEN
             LET f == Frag(Tr.toks, i) IN
             IF StartsWith(rest, f) THEN Walk(i + 1, SubSeq(rest, Len(f) + 1, Len(rest)))
             ELSE "render:" \o t.ty
         ELSE \* frame only: <pre><code ... </code></pre>\n somewhere ahead; resynchronise after it
             LET ends == {k \in 1..Len(rest) : EndsWith(SubSeq(rest, 1, k), CODEPRE)} IN
             IF ~StartsWith(rest, PRECODE) \/ ends = {} THEN "render:fence"
             \* escaped content holds no "<": the first "</code></pre>" ends this fence
             ELSE LET k == CHOOSE k \in ends : \A j \in ends : k <= j IN Walk(i + 1, SubSeq(rest, k + 1, Len(rest)))

Verdict == Walk(1, Tr.html)

Consume == /\ l' = l + 1 /\ verdict' = Verdict /\ UNCHANGED <<tid, done>>
Finish == /\ PrintT(<<"V", tid, verdict, l>>) /\ done' = TRUE /\ UNCHANGED <<tid, l, verdict>>
TraceInit == tid \in 1..Len(Traces) /\ l = 1 /\ verdict = "ok" /\ done = FALSE
TraceNext == /\ ~done
             /\ IF verdict # "ok" \/ l > 1 THEN Finish ELSE Consume
TraceSpec == TraceInit /\ [][TraceNext]_tvars
=============================================================================
