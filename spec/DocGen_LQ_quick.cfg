CONSTANTS
  Alphabet <- LQ
  Core <- LQCore
  Mid <- LQCore
  MaxAll = 2
  MaxMid = 3
  MaxCore = 3
  Wrappers <- Wrap2
  MaxWrap = 1
  MaxDeep = 2
  DeepWraps = 0
SPECIFICATION Spec
INVARIANT Bounded
CHECK_DEADLOCK FALSE
