CONSTANTS
  MaxTok = 6
  Relevel = FALSE
  SameContext = TRUE
SPECIFICATION Spec
INVARIANT WellFormed
INVARIANT LevelIsOpenCount
CHECK_DEADLOCK FALSE
