---------------------------- MODULE FlankingTrace ----------------------------
(***************************************************************************)
(* Delimiter runs (StateInline.scanDelims): growth, the inline machine's   *)
(* classification step that feeds DelimitersDefs.  CommonMark's definition *)
(* is written out declaratively and the real function must agree on every  *)
(* (preceding character, marker, run length, following character) over the  *)
(* alphabet below (start / end of the text count as white space):           *)
(*   left-flanking   next is not white space, and (next is not punctuation *)
(*                   or last is white space or punctuation)                *)
(*   right-flanking  symmetric                                             *)
(*   "*" "~"         can open = left-flanking, can close = right-flanking  *)
(*   "_"             can open = left /\ (~right \/ last is punctuation),   *)
(*                   can close = right /\ (~left \/ next is punctuation)   *)
(* Trace: calls <<last, marker, n, next, canOpen, canClose, length>> with  *)
(* -1 for "no character".                                                  *)
(***************************************************************************)
EXTENDS Integers, Sequences, FiniteSets, TLC, Json, IOUtils

VARIABLES tid, l, verdict, done
tvars == <<tid, l, verdict, done>>
Data   == JsonDeserialize(IOEnv.TRACE_FILE)
Traces == Data.traces
Calls  == Traces[tid].calls

(* Unicode white space (Zs, and tab / line feed / form feed / vertical tab / carriage return) *)
WSChars == {9, 10, 11, 12, 13, 32, 160, 5760, 8239, 8287, 12288} \cup (8192..8202)
(* ASCII punctuation and the Unicode punctuation (general category P) members of the alphabet *)
AsciiPunct == (33..47) \cup (58..64) \cup (91..96) \cup (123..126)
UniPunct == {161, 167, 171, 187, 191, 8212, 8216, 8217, 8220, 8230, 12289, 12290, 65281}
(* the rest of the alphabet: letters, digits, symbols that are not punctuation, combining marks, emoji *)
Others == {48, 57, 65, 97, 122, 233, 223, 8364, 169, 176, 215, 768, 8203, 65279, 128512, 19968, 1488}
Alphabet == WSChars \cup AsciiPunct \cup UniPunct \cup Others \cup {-1}

IsWS(c) == c = -1 \/ c \in WSChars
IsP(c) == c \in AsciiPunct \cup UniPunct
Left(last, next)  == ~IsWS(next) /\ (~IsP(next) \/ IsWS(last) \/ IsP(last))
Right(last, next) == ~IsWS(last) /\ (~IsP(last) \/ IsWS(next) \/ IsP(next))
CanOpen(m, last, next)  == IF m = 95 THEN Left(last, next) /\ (~Right(last, next) \/ IsP(last)) ELSE Left(last, next)
CanClose(m, last, next) == IF m = 95 THEN Right(last, next) /\ (~Left(last, next) \/ IsP(next)) ELSE Right(last, next)

Check(c) ==
    LET last == c[1] m == c[2] n == c[3] next == c[4] IN
    IF last \notin Alphabet \/ next \notin Alphabet \/ last = m \/ next = m THEN "harness:outside_alphabet"
    ELSE IF c[7] # n THEN "run_length"
    ELSE IF (c[5] = 1) # CanOpen(m, last, next) THEN "can_open"
    ELSE IF (c[6] = 1) # CanClose(m, last, next) THEN "can_close"
    ELSE "ok"

Consume == /\ l' = l + 1 /\ verdict' = Check(Calls[l]) /\ UNCHANGED <<tid, done>>
Finish == /\ PrintT(<<"V", tid, verdict, l>>) /\ done' = TRUE /\ UNCHANGED <<tid, l, verdict>>
TraceInit == tid \in 1..Len(Traces) /\ l = 1 /\ verdict = "ok" /\ done = FALSE
TraceNext == /\ ~done
             /\ IF verdict # "ok" \/ l > Len(Calls) THEN Finish ELSE Consume
TraceSpec == TraceInit /\ [][TraceNext]_tvars
=============================================================================
