CONSTANTS
  Inst = {1, 2}
  Presets = {"commonmark", "js-default", "zero"}
  ToggleNames = {"table", "emphasis", "nosuch"}
  MaxNames = 2
  OptChoices <- OptC12T
  RRNames = {"text"}
  Docs = {"D1", "D2", "D3"}
  Defines <- MCDefines
  FaultSites = {}
  MaxCtx = 0
  MaxDepth = 5
  ChainToggleChains = {"inline", "inline2"}
  Variant = "head"
SPECIFICATION SpecP
VIEW view
CONSTRAINT Bound
INVARIANT TypeOK
PROPERTY Isolation
PROPERTY ResetRestores
PROPERTY CallsAreInert
PROPERTY RoutesAgree
