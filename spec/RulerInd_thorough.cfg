CONSTANTS
  Names = {"a", "b"}
  Ghost = {"zz"}
  Chains = {"p"}
  MaxRules = 3
  MaxFn = 4
  MaxArgs = 2
  MaxDepth = 1
  Variant = "head"
SPECIFICATION IndSpec
CONSTRAINT OneStep
INVARIANT IndInv
CHECK_DEADLOCK FALSE
