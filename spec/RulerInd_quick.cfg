CONSTANTS
  Names = {"a", "b"}
  Ghost = {"zz"}
  Chains = {"p"}
  MaxRules = 2
  MaxFn = 3
  MaxArgs = 2
  MaxDepth = 1
  Variant = "head"
SPECIFICATION IndSpec
CONSTRAINT OneStep
INVARIANT IndInv
CHECK_DEADLOCK FALSE
