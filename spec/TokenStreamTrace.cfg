SPECIFICATION TraceSpec
INVARIANT CtxNonEmpty
CHECK_DEADLOCK FALSE
