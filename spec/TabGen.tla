-------------------------------- MODULE TabGen --------------------------------
(***************************************************************************)
(* Generator for C17(b): physical lines made of up to MaxSeg container     *)
(* segments (0-3 columns of indentation, a marker, 1-4 columns of blanks)  *)
(* and a tab-free leaf.  Every blank run (indentation or after a marker)   *)
(* is spelled with spaces, or - where the run ends exactly on a tab stop - *)
(* with tabs.  Column arithmetic is done here, from the physical line      *)
(* start.  A finished line is exported as code points; the trace           *)
(* specification expands it again (ExpandTabs) to obtain the all-spaces    *)
(* twin, so the two spellings are related inside the specification.        *)
(***************************************************************************)
EXTENDS Integers, Sequences, FiniteSets, TLC, Json

CONSTANTS Markers,  \* sequence of markers (code point sequences)
          Leaves,   \* sequence of tab-free leaves (code point sequences)
          MaxSeg

VARIABLES line,    \* code points so far
          col,     \* current column (0-based, tabs expanded)
          segs,    \* segments emitted
          tabs,    \* number of runs spelled with tabs
          fin      \* leaf appended

vars == <<line, col, segs, tabs, fin>>

Spaces(k) == [i \in 1..k |-> 32]
(* a run of w >= 1 columns starting at column c, spelled with tabs: legal iff it ends on a tab stop *)
TabLegal(c, w) == w >= 1 /\ (c + w) % 4 = 0
NTabs(c, w) == ((c + w) \div 4) - (c \div 4)
TabRun(c, w) == [i \in 1..NTabs(c, w) |-> 9]

Run(w, useTab) == IF useTab THEN TabRun(col, w) ELSE Spaces(w)

Init == line = <<>> /\ col = 0 /\ segs = 0 /\ tabs = 0 /\ fin = FALSE

(* one container segment: indent, marker, blanks *)
Segment(ind, m, bl, tabInd, tabBl) ==
    /\ ~fin /\ segs < MaxSeg
    /\ (tabInd => TabLegal(col, ind))
    /\ LET c1 == col + ind + Len(Markers[m]) IN
       /\ (tabBl => TabLegal(c1, bl))
       /\ line' = line \o (IF tabInd THEN TabRun(col, ind) ELSE Spaces(ind)) \o Markers[m]
                       \o (IF tabBl THEN TabRun(c1, bl) ELSE Spaces(bl))
       /\ col' = c1 + bl
    /\ segs' = segs + 1
    /\ tabs' = tabs + (IF tabInd THEN 1 ELSE 0) + (IF tabBl THEN 1 ELSE 0)
    /\ UNCHANGED fin

Finish(k, ind, tabInd) ==
    /\ ~fin
    /\ (tabInd => TabLegal(col, ind))
    /\ line' = line \o (IF tabInd THEN TabRun(col, ind) ELSE Spaces(ind)) \o Leaves[k]
    /\ col' = col + ind + Len(Leaves[k])
    /\ tabs' = tabs + (IF tabInd THEN 1 ELSE 0)
    /\ fin' = TRUE
    /\ UNCHANGED segs

Next == \/ \E ind \in 0..3, m \in DOMAIN Markers, bl \in 1..4, ti \in BOOLEAN, tb \in BOOLEAN :
              Segment(ind, m, bl, ti, tb)
        \/ \E k \in DOMAIN Leaves, ind \in 0..3, ti \in BOOLEAN : Finish(k, ind, ti)
Spec == Init /\ [][Next]_vars

(* export finished lines that contain at least one tab *)
Export == (fin /\ tabs >= 1) => PrintT(ToJson(line))
ColumnsRight == col >= Len(line)    \* tabs only ever widen
=============================================================================
