--------------------------- MODULE MCLazyCompile ---------------------------
(* Model-checking instances of LazyCompile *)
EXTENDS LazyCompile

(* two rulers; the "block" ruler has a terminator chain "p" *)
MCRulers == {"core", "block"}
MCRuleSeq == [r \in MCRulers |->
               IF r = "core" THEN <<[fn |-> 1, alt |-> {}], [fn |-> 2, alt |-> {}]>>
               ELSE <<[fn |-> 11, alt |-> {"p"}], [fn |-> 12, alt |-> {}], [fn |-> 13, alt |-> {"p"}]>>]
ParseCalls == <<[r |-> "core", c |-> ""], [r |-> "block", c |-> ""], [r |-> "block", c |-> "p"]>>
ShortCalls == <<[r |-> "block", c |-> ""], [r |-> "block", c |-> "p"]>>
MCThreads2 == {1, 2}
MCThreads3 == {1, 2, 3}
MCCalls2 == [t \in MCThreads2 |-> ParseCalls]
MCCalls3 == [t \in MCThreads3 |-> ShortCalls]
(* one ruler only, for the 3-thread instance *)
MCRulers1 == {"block"}
MCRuleSeq1 == [r \in MCRulers1 |-> MCRuleSeq["block"]]
=============================================================================
