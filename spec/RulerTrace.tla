---------------------------- MODULE RulerTrace ----------------------------
(***************************************************************************)
(* Trace specification for C11: validates executions recorded from a real  *)
(* markdown_it.ruler.Ruler against the actions of Ruler.tla.               *)
(*                                                                         *)
(* A shard holds many traces; `tid` selects one (one initial state per     *)
(* trace).  Every event is consumed by the Ruler action of the same name   *)
(* with the logged arguments; the logged observations (outcome, reported   *)
(* rule names, and - only where the execution called getRules - the        *)
(* returned chain) are compared with the model and the first failing       *)
(* clause becomes the verdict.  Verdicts are total: each trace ends in     *)
(* Finish, which prints <<"V", tid, verdict, position>>.                   *)
(*                                                                         *)
(* Deliberate looseness (DESIGN section 2, R2): for a multi-name           *)
(* enable/disable/enableOnly that raises part-way the statement fixes only *)
(* coherence, so both "prefix applied" (Ruler!Toggle) and "nothing         *)
(* applied" (ToggleAtomicFail) are admitted.  The cache is internal and    *)
(* never compared: at a getRules event the returned functions must be the  *)
(* functions of the rules REPORTED active, which is the statement itself.  *)
(***************************************************************************)
EXTENDS Ruler, IOUtils

VARIABLES tid, l, verdict, done

tvars == <<vars, tid, l, verdict, done>>

Data   == JsonDeserialize(IOEnv.TRACE_FILE)
Traces == Data.traces
Ev     == Traces[tid].ev

ToSet(s) == {s[i] : i \in DOMAIN s}

(* first failing clause of the observation e against the primed model state *)
Check(e) ==
    IF e.out # ret'.out THEN "outcome"
    ELSE IF e.all # AllRuleNames(rules') THEN "all_rules"
    ELSE IF e.active # ActiveNames(rules') THEN "active_rules"
    ELSE IF e.op \in {"enable", "disable", "enableOnly"} /\ e.out = "ok" /\ e.found # ret'.found
         THEN "found_list"
    ELSE IF e.op = "getRules" /\ e.fns # Reported(rules', e.chain) THEN "applied_ne_reported"
    ELSE "ok"

ToggleAtomicFail(op, names, ign) ==
    LET start == IF op = "enableOnly" THEN AllOff(rules) ELSE rules
        w     == Walk(start, names, op # "disable", ign, <<>>)
    IN /\ w.raised
       /\ ret' = [out |-> "KeyError"]
       /\ UNCHANGED <<rules, cache, nextFn>>
       /\ Log([op |-> op, names |-> names, ign |-> ign])

Consume ==
    LET e == Ev[l] IN
    /\ l' = l + 1
    /\ \/ e.op = "push" /\ e.fn = nextFn /\ Push(e.name, ToSet(e.alt))
       \/ e.op = "before" /\ e.fn = nextFn /\ Before(e.ref, e.name, ToSet(e.alt))
       \/ e.op = "after" /\ e.fn = nextFn /\ After(e.ref, e.name, ToSet(e.alt))
       \/ e.op = "at" /\ e.fn = nextFn /\ At(e.ref, ToSet(e.alt))
       \/ e.op \in {"enable", "disable", "enableOnly"} /\ Toggle(e.op, e.names, e.ign)
       \/ e.op \in {"enable", "disable", "enableOnly"} /\ ToggleAtomicFail(e.op, e.names, e.ign)
       \/ e.op = "getRules" /\ GetRules(e.chain)
    /\ verdict' = Check(e)
    /\ UNCHANGED <<tid, done>>

Finish ==
    /\ PrintT(<<"V", tid, verdict, l>>)
    /\ done' = TRUE
    /\ UNCHANGED <<vars, tid, l, verdict>>

TraceInit ==
    /\ Init
    /\ tid \in 1..Len(Traces)
    /\ l = 1
    /\ verdict = "ok"
    /\ done = FALSE

TraceNext ==
    /\ ~done
    /\ IF verdict # "ok" \/ l > Len(Ev) THEN Finish ELSE Consume

TraceSpec == TraceInit /\ [][TraceNext]_tvars

(* Evaluated in every state of every observed execution *)
TraceCoherent == Coherent
TraceFnsDistinct == FnsDistinct
=============================================================================
