------------------------------ MODULE Delimiters ------------------------------
(***************************************************************************)
(* TLC: the linear-time delimiter pairing of the code (Opt) computes the   *)
(* reference pairing (Naive) on EVERY delimiter sequence built from up to  *)
(* MaxRuns runs (marker, length 1..MaxLen, can-open, can-close, token-     *)
(* adjacent to the previous run or not).  See DelimitersDefs.tla.          *)
(* `Variant` = "code" | "keep_inner" (a reference that leaves the          *)
(* delimiters inside a matched pair available: must be refuted - vacuity   *)
(* guard).  Cutting the run behind a matched closer, by contrast, is a     *)
(* pure optimisation: TLC finds no difference with or without it.          *)
(***************************************************************************)
EXTENDS DelimitersDefs

CONSTANTS Markers, MaxLen, MaxRuns, Variant
VARIABLES runs
RunSet == [m : Markers, len : 1..MaxLen, open : BOOLEAN, close : BOOLEAN, adj : BOOLEAN]

RECURSIVE Expand(_, _, _)
Expand(rs, k, tok) ==       \* delimiters of runs k.., the first one standing at token index tok
    IF k > Len(rs) THEN <<>>
    ELSE LET r == rs[k]
             t0 == IF r.adj THEN tok ELSE tok + 1
         IN [i \in 1..r.len |-> [m |-> r.m, len |-> r.len, tok |-> t0 + i - 1, end |-> -1, open |-> r.open, close |-> r.close]]
            \o Expand(rs, k + 1, t0 + r.len)

Init == runs = <<>>
Next == Len(runs) < MaxRuns /\ \E r \in RunSet : runs' = Append(runs, r)
Spec == Init /\ [][Next]_runs

NaiveKeepInner(ds) == LET RECURSIVE F(_, _, _)
                      F(d, gone, c) ==
                        IF c >= N(d) THEN d
                        ELSE LET x == D(d, c) IN
                             IF ~x.close THEN F(d, gone, c + 1)
                             ELSE LET h == Header(d, {}, c)
                                      cand == {o \in 0..(h - 1) : o \notin gone /\ D(d, o).m = x.m /\ D(d, o).open
                                                                  /\ D(d, o).end < 0 /\ ~Odd(D(d, o), x)}
                                  IN IF cand = {} THEN F(d, gone, c + 1)
                                     ELSE LET o == Max(cand) IN
                                          F(SetD(SetD(SetD(d, o, "end", c), o, "close", FALSE), c, "open", FALSE), gone \cup {o, c}, c + 1)
                  IN F(ds, {}, 0)

Ref(ds) == IF Variant = "keep_inner" THEN NaiveKeepInner(ds) ELSE Naive(ds)
OptIsNaive == LET ds == Expand(runs, 1, 0) IN Opt(ds) = Ref(ds)

(* what C02 needs from the pairing: pairs are properly nested, an opener's partner lies to its right, has the
   same marker, and no delimiter is in two pairs *)
WellPaired ==
    LET ds == Opt(Expand(runs, 1, 0))
        P == {<<o, D(ds, o).end>> : o \in {i \in 0..(N(ds) - 1) : D(ds, i).end >= 0}}
    IN /\ \A p \in P : p[1] < p[2] /\ p[2] < N(ds) /\ D(ds, p[1]).m = D(ds, p[2]).m
       /\ \A p, q \in P : p # q => /\ p[1] # q[1] /\ p[2] # q[2] /\ p[1] # q[2]
                                   /\ ~(p[1] < q[1] /\ q[1] < p[2] /\ p[2] < q[2])
=============================================================================
