----------------------------- MODULE TokenProducer -----------------------------
(***************************************************************************)
(* Design model behind C02: HOW the inline parser produces a children      *)
(* list, and why the result is well nested and correctly levelled          *)
(* (mechanism => property).                                                *)
(*                                                                         *)
(* Phase "tok"  StateInline.push / pushPending: text, leaves, opening and  *)
(*              closing tags (link), and delimiter runs pushed as text;    *)
(*              each opening tag starts a new delimiter context            *)
(*              (state._prev_delimiters) which the closing tag restores.   *)
(* Phase "pair" balance_pairs + emphasis post-processing: delimiters are   *)
(*              paired, non-crossing, WITHIN ONE context; the pair becomes *)
(*              em_open / em_close.  Levels are now stale.                 *)
(* Phase "join" fragments_join: levels recomputed from the nesting, adjacent *)
(*              text merged.                                               *)
(* Property: the finished list is accepted by the clauses of               *)
(* TokenStreamTrace.tla (balanced, matching kinds, level = depth, no       *)
(* adjacent text).  Variants (must fail): Relevel = FALSE (fragments_join  *)
(* does not recompute levels), SameContext = FALSE (a pair may straddle a  *)
(* context boundary - the delimiter stack is not restored).                *)
(***************************************************************************)
EXTENDS Integers, Sequences, FiniteSets, TLC

CONSTANTS MaxTok,       \* tokens pushed in phase "tok"
          Relevel,      \* BOOLEAN
          SameContext   \* BOOLEAN

VARIABLES toks,    \* Seq([ty, n, lv, ctx, delim])  ctx = delimiter context id, delim = can pair
          level, ctxs, nextCtx,   \* tokenizer state: level, stack of contexts, fresh id
          opens,   \* stack of open tag kinds
          phase

vars == <<toks, level, ctxs, nextCtx, opens, phase>>

Tk(ty, n, lv, ctx, d) == [ty |-> ty, n |-> n, lv |-> lv, ctx |-> ctx, delim |-> d]
CurCtx == ctxs[Len(ctxs)]

Init == /\ toks = <<>> /\ level = 0 /\ ctxs = <<0>> /\ nextCtx = 1 /\ opens = <<>> /\ phase = "tok"

Room == Len(toks) < MaxTok
PushText == /\ phase = "tok" /\ Room
            /\ (IF toks = <<>> THEN TRUE ELSE (toks[Len(toks)].ty # "text" \/ toks[Len(toks)].delim))   \* pending text is one token
            /\ toks' = Append(toks, Tk("text", 0, level, CurCtx, FALSE))
            /\ UNCHANGED <<level, ctxs, nextCtx, opens, phase>>
PushDelim == /\ phase = "tok" /\ Room
             /\ toks' = Append(toks, Tk("text", 0, level, CurCtx, TRUE))
             /\ UNCHANGED <<level, ctxs, nextCtx, opens, phase>>
PushLeaf == /\ phase = "tok" /\ Room
            /\ toks' = Append(toks, Tk("code_inline", 0, level, CurCtx, FALSE))
            /\ UNCHANGED <<level, ctxs, nextCtx, opens, phase>>
PushOpen == /\ phase = "tok" /\ Len(toks) + 1 < MaxTok
            /\ toks' = Append(toks, Tk("link", 1, level, CurCtx, FALSE))
            /\ level' = level + 1
            /\ ctxs' = Append(ctxs, nextCtx) /\ nextCtx' = nextCtx + 1
            /\ opens' = Append(opens, "link")
            /\ UNCHANGED phase
PushClose == /\ phase = "tok" /\ Room /\ opens # <<>>
             /\ level' = level - 1
             /\ ctxs' = SubSeq(ctxs, 1, Len(ctxs) - 1)
             /\ toks' = Append(toks, Tk("link", -1, level - 1, ctxs[Len(ctxs) - 1], FALSE))
             /\ opens' = SubSeq(opens, 1, Len(opens) - 1)
             /\ UNCHANGED <<nextCtx, phase>>
EndTok == /\ phase = "tok" /\ opens = <<>> /\ phase' = "pair"
          /\ UNCHANGED <<toks, level, ctxs, nextCtx, opens>>

(* pair two delimiters i < j of one context, with no unpaired-crossing: nothing between them is a
   still-pairable delimiter of the same context that is left dangling across - we model the stack
   discipline of balance_pairs by requiring that the delimiters strictly between i and j in that context
   are all still text (inner pairs are made first) *)
Pairable(i, j) ==
    /\ i < j /\ toks[i].delim /\ toks[j].delim
    /\ (SameContext => toks[i].ctx = toks[j].ctx)
    /\ \A k \in (i + 1)..(j - 1) : ~(toks[k].delim /\ toks[k].ctx = toks[i].ctx)
Pair == /\ phase = "pair"
        /\ \E i, j \in DOMAIN toks :
             /\ Pairable(i, j)
             /\ toks' = [toks EXCEPT ![i] = Tk("em", 1, @.lv, @.ctx, FALSE), ![j] = Tk("em", -1, @.lv, @.ctx, FALSE)]
        /\ UNCHANGED <<level, ctxs, nextCtx, opens, phase>>
EndPair == /\ phase = "pair" /\ phase' = "join" /\ UNCHANGED <<toks, level, ctxs, nextCtx, opens>>

(* fragments_join: one pass recomputing levels and merging adjacent text *)
RECURSIVE Rejoin(_, _, _)
Rejoin(ts, lv, acc) ==
    IF ts = <<>> THEN acc
    ELSE LET t  == Head(ts)
             l1 == IF t.n = -1 THEN lv - 1 ELSE lv
             t2 == IF Relevel THEN [t EXCEPT !.lv = l1, !.delim = FALSE] ELSE [t EXCEPT !.delim = FALSE]
             l2 == IF t.n = 1 THEN l1 + 1 ELSE l1
         IN IF t2.ty = "text" /\ acc # <<>> /\ acc[Len(acc)].ty = "text" /\ acc[Len(acc)].lv = t2.lv
            THEN Rejoin(Tail(ts), l2, acc)                     \* merged into the previous text token
            ELSE Rejoin(Tail(ts), l2, Append(acc, t2))
Join == /\ phase = "join" /\ toks' = Rejoin(toks, 0, <<>>) /\ phase' = "done"
        /\ UNCHANGED <<level, ctxs, nextCtx, opens>>

Next == PushText \/ PushDelim \/ PushLeaf \/ PushOpen \/ PushClose \/ EndTok \/ Pair \/ EndPair \/ Join
Spec == Init /\ [][Next]_vars

-----------------------------------------------------------------------------
(* the clauses of TokenStreamTrace.tla on the finished list *)
RECURSIVE Accept(_, _)
Accept(ts, stack) ==      \* returns "ok" or the failing clause
    IF ts = <<>> THEN (IF stack = <<>> THEN "ok" ELSE "unbalanced_at_end")
    ELSE LET t == Head(ts) d == Len(stack) IN
         IF t.n = -1 /\ d = 0 THEN "negative_depth"
         ELSE IF t.n = -1 /\ stack[d] # t.ty THEN "mismatched_close"
         ELSE IF t.lv # (IF t.n = -1 THEN d - 1 ELSE d) THEN "level"
         ELSE Accept(Tail(ts), IF t.n = 1 THEN Append(stack, t.ty)
                               ELSE IF t.n = -1 THEN SubSeq(stack, 1, d - 1) ELSE stack)
NoAdjacentText == \A k \in 1..(Len(toks) - 1) : ~(toks[k].ty = "text" /\ toks[k + 1].ty = "text")

WellFormed == phase = "done" => (Accept(toks, <<>>) = "ok" /\ NoAdjacentText)
(* the tokenizer's own bookkeeping *)
LevelIsOpenCount == phase = "tok" => level = Len(opens) /\ Len(ctxs) = Len(opens) + 1
=============================================================================
