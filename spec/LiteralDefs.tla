----------------------------- MODULE LiteralDefs  -----------------------------
(***************************************************************************)
(* Constants of C09 (single source of truth, exported to the harness and    *)
(* handed back to LiteralTrace.tla as code points in the shard header):     *)
(* the inline contexts with their Markdown template and the HTML the  *)
(* renderer must produce around the literal text, the alphabet of t, and    *)
(* the named character references used by the "named" form.                 *)
(* "@" marks where the escaped text / the expected literal goes.            *)
(* "{u+XXXX}" = code point.  `x` = 1: the HTML differs with xhtmlOut.       *)
(***************************************************************************)
EXTENDS TLC, Json, Sequences, Integers

Contexts == <<
  [name |-> "paragraph", md |-> "@\n",                         html |-> "<p>@</p>\n"],
  [name |-> "heading",   md |-> "# @\n",                       html |-> "<h1>@</h1>\n"],
  [name |-> "emphasis",  md |-> "*@*\n",                       html |-> "<p><em>@</em></p>\n"],
  [name |-> "strong",    md |-> "**@**\n",                     html |-> "<p><strong>@</strong></p>\n"],
  [name |-> "strike",    md |-> "~~@~~\n",                     html |-> "<p><s>@</s></p>\n"],
  [name |-> "linktext",  md |-> "[@](/u)\n",                   html |-> "<p><a href=\"/u\">@</a></p>\n"],
  [name |-> "alt",       md |-> "![@](/u)\n",                  html |-> "<p><img src=\"/u\" alt=\"@\"{x}></p>\n"],
  [name |-> "title",     md |-> "[x](/u \"@\")\n",             html |-> "<p><a href=\"/u\" title=\"@\">x</a></p>\n"],
  [name |-> "title1",    md |-> "[x](/u '@')\n",               html |-> "<p><a href=\"/u\" title=\"@\">x</a></p>\n"],
  [name |-> "cell",      md |-> "| h |\n|---|\n| @ |\n",
   html |-> "<table>\n<thead>\n<tr>\n<th>h</th>\n</tr>\n</thead>\n<tbody>\n<tr>\n<td>@</td>\n</tr>\n</tbody>\n</table>\n"]
>>

(* code points t is built from; the last group only in the backslash form *)
Alphabet == <<97, 32, 42, 95, 96, 91, 93, 40, 41, 60, 62, 38, 34, 39, 92, 35, 33, 124, 126, 45, 58, 59, 61, 36,
              233, 160, 8203, 171, 8212, 12288, 65279, 9, 1, 127, 12, 8232, 133, 28>>
BackslashOnly == {1, 127, 28, 133}
(* form feed, LINE SEPARATOR, NEL, FS: ordinary characters of the text for Markdown (general-purpose line
   splitting treats them as line ends); FF and LS are also explored at depth three, i.e. in the interior of t *)
Core == (1..20) \cup {35, 36}

Named == << <<38, "amp">>, <<60, "lt">>, <<62, "gt">>, <<34, "quot">>, <<42, "ast">>, <<95, "lowbar">>,
            <<91, "lsqb">>, <<93, "rsqb">>, <<96, "grave">>, <<92, "bsol">>, <<160, "nbsp">>, <<233, "eacute">>,
            <<35, "num">>, <<33, "excl">>, <<40, "lpar">>, <<41, "rpar">>, <<124, "vert">>, <<39, "apos">>,
            <<171, "laquo">>, <<8212, "mdash">>, <<9, "Tab">>, <<36, "dollar">>, <<58, "colon">>, <<59, "semi">>,
            <<61, "equals">>, <<8203, "ZeroWidthSpace">> >>

=============================================================================
