----------------------------- MODULE HtmlOutTrace -----------------------------
(***************************************************************************)
(* C04: with raw HTML off, the rendered output is a properly nested        *)
(* sequence of tags from the renderer's own vocabulary with every input    *)
(* character escaped.  Acceptor: a character-level lexer (one step per     *)
(* output code point) with a tag stack.                                    *)
(* Clauses (verdicts):                                                     *)
(*   raw_lt / raw_gt / raw_quote   an unescaped < > " in text, or < > in   *)
(*                       an attribute value                                *)
(*   bad_entity          & not followed by amp; lt; gt; quot;              *)
(*   unknown_element     tag name outside the vocabulary                   *)
(*   unknown_attribute   attribute outside the vocabulary of its element,  *)
(*                       or repeated                                       *)
(*   malformed_tag       anything else the renderer never writes           *)
(*                       (unquoted value, junk after a value, ...)         *)
(*   bad_style           th/td style other than text-align:left|right|     *)
(*                       center                                            *)
(*   mismatched_close_tag / unclosed_at_end / unterminated                 *)
(***************************************************************************)
EXTENDS Integers, Sequences, FiniteSets, TLC, Json, IOUtils

VARIABLES tid, l, verdict, done,
          st,      \* lexer state
          buf,     \* name / entity / value being collected (code points)
          tag,     \* current tag name (code points)
          attrs,   \* attribute names seen in the current tag
          aname,   \* current attribute name
          closing, \* the current tag is a closing tag
          ret,     \* state to return to after an entity
          stack    \* open elements

tvars == <<tid, l, verdict, done, st, buf, tag, attrs, aname, closing, ret, stack>>

Data   == JsonDeserialize(IOEnv.TRACE_FILE)
Traces == Data.traces
Html   == Traces[tid].html

S(str) == CASE str = "p" -> <<112>> [] str = "h1" -> <<104, 49>> [] str = "h2" -> <<104, 50>>
            [] str = "h3" -> <<104, 51>> [] str = "h4" -> <<104, 52>> [] str = "h5" -> <<104, 53>>
            [] str = "h6" -> <<104, 54>> [] str = "blockquote" -> <<98, 108, 111, 99, 107, 113, 117, 111, 116, 101>>
            [] str = "ul" -> <<117, 108>> [] str = "ol" -> <<111, 108>> [] str = "li" -> <<108, 105>>
            [] str = "pre" -> <<112, 114, 101>> [] str = "code" -> <<99, 111, 100, 101>>
            [] str = "em" -> <<101, 109>> [] str = "strong" -> <<115, 116, 114, 111, 110, 103>>
            [] str = "s" -> <<115>> [] str = "a" -> <<97>> [] str = "img" -> <<105, 109, 103>>
            [] str = "br" -> <<98, 114>> [] str = "hr" -> <<104, 114>>
            [] str = "table" -> <<116, 97, 98, 108, 101>> [] str = "thead" -> <<116, 104, 101, 97, 100>>
            [] str = "tbody" -> <<116, 98, 111, 100, 121>> [] str = "tr" -> <<116, 114>>
            [] str = "th" -> <<116, 104>> [] str = "td" -> <<116, 100>>
            [] str = "href" -> <<104, 114, 101, 102>> [] str = "title" -> <<116, 105, 116, 108, 101>>
            [] str = "src" -> <<115, 114, 99>> [] str = "alt" -> <<97, 108, 116>>
            [] str = "start" -> <<115, 116, 97, 114, 116>> [] str = "class" -> <<99, 108, 97, 115, 115>>
            [] str = "style" -> <<115, 116, 121, 108, 101>>
            [] str = "amp" -> <<97, 109, 112>> [] str = "lt" -> <<108, 116>> [] str = "gt" -> <<103, 116>>
            [] str = "quot" -> <<113, 117, 111, 116>>
            [] str = "text-align:left" -> <<116,101,120,116,45,97,108,105,103,110,58,108,101,102,116>>
            [] str = "text-align:right" -> <<116,101,120,116,45,97,108,105,103,110,58,114,105,103,104,116>>
            [] str = "text-align:center" -> <<116,101,120,116,45,97,108,105,103,110,58,99,101,110,116,101,114>>

ElemNames == {"p", "h1", "h2", "h3", "h4", "h5", "h6", "blockquote", "ul", "ol", "li", "pre", "code", "em",
              "strong", "s", "a", "img", "br", "hr", "table", "thead", "tbody", "tr", "th", "td"}
Vocabulary == {S(x) : x \in ElemNames}
Void == {S("br"), S("hr"), S("img")}
AttrsOf(t) == IF t = S("a") THEN {S("href"), S("title")}
              ELSE IF t = S("img") THEN {S("src"), S("alt"), S("title")}
              ELSE IF t = S("ol") THEN {S("start")}
              ELSE IF t = S("code") THEN {S("class")}
              ELSE IF t \in {S("th"), S("td")} THEN {S("style")}
              ELSE {}
Entities == {S("amp"), S("lt"), S("gt"), S("quot")}
Styles == {S("text-align:left"), S("text-align:right"), S("text-align:center")}

IsAlpha(c) == (c >= 97 /\ c <= 122) \/ (c >= 65 /\ c <= 90)
IsAlnum(c) == IsAlpha(c) \/ (c >= 48 /\ c <= 57)

(* one lexer step: returns [v, st, buf, tag, attrs, aname, closing, ret, stack] *)
Cur == [v |-> "ok", st |-> st, buf |-> buf, tag |-> tag, attrs |-> attrs, aname |-> aname,
        closing |-> closing, ret |-> ret, stack |-> stack]
Err(x) == [Cur EXCEPT !.v = x]

CloseTag(name) ==
    IF stack = <<>> \/ stack[Len(stack)] # name THEN Err("mismatched_close_tag")
    ELSE [Cur EXCEPT !.st = "Text", !.stack = SubSeq(stack, 1, Len(stack) - 1), !.buf = <<>>, !.tag = name]

OpenTagDone(void) ==
    IF void /\ tag \notin Void THEN Err("malformed_tag")
    ELSE [Cur EXCEPT !.st = "Text", !.buf = <<>>,
                     !.stack = IF tag \in Void THEN stack ELSE Append(stack, tag)]

StepFn(c) ==
    CASE st = "Text" ->
            IF c = 60 THEN [Cur EXCEPT !.st = "TagOpen", !.buf = <<>>, !.attrs = {}, !.closing = FALSE]
            ELSE IF c = 62 THEN Err("raw_gt")
            ELSE IF c = 34 THEN Err("raw_quote")
            ELSE IF c = 38 THEN [Cur EXCEPT !.st = "Entity", !.buf = <<>>, !.ret = "Text"]
            ELSE Cur
      [] st = "Entity" ->
            IF c = 59 THEN (IF buf \in Entities THEN [Cur EXCEPT !.st = ret, !.buf = <<>>] ELSE Err("bad_entity"))
            ELSE IF IsAlpha(c) /\ Len(buf) < 4 THEN [Cur EXCEPT !.buf = Append(buf, c)]
            ELSE Err("bad_entity")
      [] st = "TagOpen" ->
            IF c = 47 THEN [Cur EXCEPT !.st = "TagName", !.closing = TRUE]
            ELSE IF IsAlpha(c) THEN [Cur EXCEPT !.st = "TagName", !.buf = <<c>>]
            ELSE Err("raw_lt")
      [] st = "TagName" ->
            IF IsAlnum(c) THEN [Cur EXCEPT !.buf = Append(buf, c)]
            ELSE IF buf \notin Vocabulary THEN Err("unknown_element")
            ELSE IF c = 62 THEN
                 (IF closing THEN CloseTag(buf) ELSE
                    [Cur EXCEPT !.st = "Text", !.tag = buf, !.buf = <<>>,
                                !.stack = IF buf \in Void THEN stack ELSE Append(stack, buf)])
            ELSE IF c = 32 /\ ~closing THEN [Cur EXCEPT !.st = "BeforeAttr", !.tag = buf, !.buf = <<>>]
            ELSE Err("malformed_tag")
      [] st = "BeforeAttr" ->
            IF IsAlpha(c) THEN [Cur EXCEPT !.st = "AttrName", !.buf = <<c>>]
            ELSE IF c = 47 THEN [Cur EXCEPT !.st = "Slash"]
            ELSE Err("malformed_tag")
      [] st = "AttrName" ->
            IF IsAlnum(c) \/ c = 45 THEN [Cur EXCEPT !.buf = Append(buf, c)]
            ELSE IF c = 61 THEN
                 (IF buf \in AttrsOf(tag) /\ buf \notin attrs
                  THEN [Cur EXCEPT !.st = "AfterEq", !.aname = buf, !.attrs = attrs \cup {buf}, !.buf = <<>>]
                  ELSE Err("unknown_attribute"))
            ELSE Err("malformed_tag")
      [] st = "AfterEq" ->
            IF c = 34 THEN [Cur EXCEPT !.st = "AttrValue", !.buf = <<>>] ELSE Err("malformed_tag")
      [] st = "AttrValue" ->
            IF c = 34 THEN
                 (IF aname = S("style") /\ buf \notin Styles THEN Err("bad_style")
                  ELSE [Cur EXCEPT !.st = "AfterValue", !.buf = <<>>])
            ELSE IF c = 60 THEN Err("raw_lt")
            ELSE IF c = 62 THEN Err("raw_gt")
            ELSE IF c = 38 THEN [Cur EXCEPT !.st = "Entity", !.buf = <<>>, !.ret = "AttrValue"]
            ELSE IF aname = S("style") THEN [Cur EXCEPT !.buf = IF Len(buf) < 20 THEN Append(buf, c) ELSE buf]
            ELSE Cur
      [] st = "AfterValue" ->
            IF c = 32 THEN [Cur EXCEPT !.st = "BeforeAttr"]
            ELSE IF c = 62 THEN OpenTagDone(FALSE)
            ELSE Err("malformed_tag")
      [] st = "Slash" ->
            IF c = 62 THEN OpenTagDone(TRUE) ELSE Err("malformed_tag")

(* "<br />" : the renderer writes " /" directly after the tag name as well *)
StepFn2(c) ==
    IF st = "TagName" /\ c = 32 /\ ~closing /\ buf \in Vocabulary
    THEN [Cur EXCEPT !.st = "BeforeAttr", !.tag = buf, !.buf = <<>>]
    ELSE StepFn(c)

Consume ==
    LET r == StepFn2(Html[l]) IN
    /\ l' = l + 1
    /\ verdict' = r.v
    /\ st' = r.st /\ buf' = r.buf /\ tag' = r.tag /\ attrs' = r.attrs /\ aname' = r.aname
    /\ closing' = r.closing /\ ret' = r.ret /\ stack' = r.stack
    /\ UNCHANGED <<tid, done>>

EndVerdict == IF verdict # "ok" THEN verdict
              ELSE IF st # "Text" THEN "unterminated"
              ELSE IF stack # <<>> THEN "unclosed_at_end" ELSE "ok"

Finish == /\ PrintT(<<"V", tid, EndVerdict, l>>) /\ done' = TRUE
          /\ UNCHANGED <<tid, l, verdict, st, buf, tag, attrs, aname, closing, ret, stack>>

TraceInit == /\ tid \in 1..Len(Traces) /\ l = 1 /\ verdict = "ok" /\ done = FALSE
             /\ st = "Text" /\ buf = <<>> /\ tag = <<>> /\ attrs = {} /\ aname = <<>>
             /\ closing = FALSE /\ ret = "Text" /\ stack = <<>>
TraceNext == /\ ~done
             /\ IF verdict # "ok" \/ l > Len(Html) THEN Finish ELSE Consume
TraceSpec == TraceInit /\ [][TraceNext]_tvars

StackInVocabulary == \A k \in DOMAIN stack : stack[k] \in Vocabulary /\ stack[k] \notin Void
=============================================================================
