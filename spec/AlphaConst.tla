----------------------------- MODULE AlphaConst -----------------------------
(* Exports the alphabets of Alphabets.tla to the harness. *)
EXTENDS Alphabets, TLC, Json
VARIABLE x
Init == x = 0
Stop == FALSE /\ UNCHANGED x
ASSUME PrintT(ToJson([L1 |-> L1, L2 |-> L2, L0 |-> L0, Wrap2 |-> Wrap2, LB |-> LB, LQ |-> LQ, RText |-> RText, RDest |-> RDest, RTitle |-> RTitle, WrapU |-> WrapU, LM |-> LM, WrapM |-> WrapM, Nest |-> Nest, NestSizes |-> NestSizes, Twins |-> Twins, LD |-> LD, WrapD |-> WrapD, HtmlNames1 |-> HtmlNames1, HtmlNames6 |-> HtmlNames6, HtmlLines |-> HtmlLines, L3 |-> L3, TailHeads |-> TailHeads, TailEmpties |-> TailEmpties, TailTails |-> TailTails, FenceOpen |-> FenceOpen, FenceBody |-> FenceBody, ParaPrefixes |-> ParaPrefixes, Lookahead |-> Lookahead]))
=============================================================================
