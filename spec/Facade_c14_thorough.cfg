CONSTANTS
  Inst = {1}
  Presets = {"commonmark", "js-default", "zero"}
  ToggleNames = {"emphasis", "table", "verif_block", "verif_inline", "nosuch"}
  MaxNames = 2
  OptChoices <- OptC14
  RRNames = {"text"}
  Docs = {"D1", "D2", "D3"}
  Defines <- MCDefines
  FaultSites = {"core", "block", "inline", "inline2", "render", "highlight"}
  MaxCtx = 3
  MaxDepth = 7
  ChainToggleChains = {"inline", "inline2"}
  Variant = "head"
SPECIFICATION SpecP
VIEW view
CONSTRAINT Bound
INVARIANT TypeOK
PROPERTY Isolation
PROPERTY ResetRestores
PROPERTY CallsAreInert
PROPERTY RoutesAgree
