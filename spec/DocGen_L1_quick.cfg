CONSTANTS
  Alphabet <- L1
  Core <- L1Core
  Mid <- L1Mid
  MaxAll = 2
  MaxMid = 3
  MaxCore = 4
  Wrappers <- NoWrap
  MaxWrap = 0
  MaxDeep = 0
  DeepWraps = 0
SPECIFICATION Spec
INVARIANT Bounded
INVARIANT Shape
INVARIANT WrapsOK
CHECK_DEADLOCK FALSE
