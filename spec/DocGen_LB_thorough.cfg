CONSTANTS
  Alphabet <- LB
  Core <- LBCore
  Mid <- LBCore
  MaxAll = 4
  MaxMid = 4
  MaxCore = 4
  Wrappers <- NoWrap
  MaxWrap = 0
  MaxDeep = 0
  DeepWraps = 0
SPECIFICATION Spec
INVARIANT Bounded
INVARIANT Shape
INVARIANT WrapsOK
CHECK_DEADLOCK FALSE
