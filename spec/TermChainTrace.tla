---------------------------- MODULE TermChainTrace ----------------------------
(***************************************************************************)
(* C11, "for every named terminator chain ... filtered by chain            *)
(* membership": what the PARSER consults, not only what getRules reports.  *)
(* A block rule consults a named chain while it looks for the end of its   *)
(* block:                                                                  *)
(*     paragraph, lheading -> "paragraph"      reference -> "reference"    *)
(*     blockquote, table -> "blockquote"       list -> "list"              *)
(* (the consulting rule is identified by the source file of the frame that *)
(* calls the probe: state.parentType is not reliable, a failing lheading   *)
(* leaves "paragraph" behind)                                              *)
(* Probe rules are registered (through every registration call of the      *)
(* Ruler) as members of exactly ONE named chain each; every SILENT         *)
(* invocation is logged as <<probe chain, file of the calling rule>>.      *)
(*   consulted_by_foreign_chain  a probe ran for a chain it is no member of *)
(*   disabled_rule_consulted     a probe ran although reported inactive    *)
(*   member_not_consulted        an active probe never ran although the    *)
(*                               document makes its chain's owner look for *)
(*                               terminators (Tr.expect lists those chains)*)
(*   chain_changed_by_parse      getRules(chain) differs before / after a  *)
(*                               parse (Tr.pre, Tr.post, Tr.post2)         *)
(*   second_parse_consults_differently  silent invocations of the first    *)
(*                               and of a second parse differ in number    *)
(***************************************************************************)
EXTENDS Integers, Sequences, FiniteSets, TLC, Json, IOUtils

VARIABLES tid, l, verdict, done, seen
tvars == <<tid, l, verdict, done, seen>>
Data   == JsonDeserialize(IOEnv.TRACE_FILE)
Traces == Data.traces
Tr     == Traces[tid]
Ev     == Tr.ev
ToSet(s) == {s[k] : k \in DOMAIN s}

ChainOf(file) == CASE file \in {"paragraph.py", "lheading.py"} -> "paragraph"
                  [] file = "reference.py" -> "reference"
                  [] file \in {"blockquote.py", "table.py"} -> "blockquote"
                  [] file = "list.py" -> "list"
                  [] OTHER -> "unknown caller " \o file

Check(e) ==
    IF ChainOf(e[2]) # e[1] THEN "consulted_by_foreign_chain"
    ELSE IF e[1] \notin ToSet(Tr.active) THEN "disabled_rule_consulted"
    ELSE "ok"

Consume == /\ l' = l + 1 /\ verdict' = Check(Ev[l]) /\ seen' = seen \cup {Ev[l][1]} /\ UNCHANGED <<tid, done>>
(* parsing is no rule-management call: the chains reported before and after it are the same, and a second parse of *)
(* the same document consults exactly as often as the first                                                       *)
Final == IF verdict # "ok" THEN verdict
         ELSE IF Tr.pre # Tr.post \/ Tr.pre # Tr.post2 THEN "chain_changed_by_parse"
         ELSE IF Tr.n1 # Tr.n2 THEN "second_parse_consults_differently"
         ELSE IF l > Len(Ev) /\ \E c \in ToSet(Tr.expect) \cap ToSet(Tr.active) : c \notin seen THEN "member_not_consulted"
         ELSE "ok"
Finish == /\ PrintT(<<"V", tid, Final, l>>) /\ done' = TRUE /\ UNCHANGED <<tid, l, verdict, seen>>
TraceInit == tid \in 1..Len(Traces) /\ l = 1 /\ verdict = "ok" /\ done = FALSE /\ seen = {}
TraceNext == /\ ~done
             /\ IF verdict # "ok" \/ l > Len(Ev) THEN Finish ELSE Consume
TraceSpec == TraceInit /\ [][TraceNext]_tvars
=============================================================================
