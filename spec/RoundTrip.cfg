CONSTANTS
  MaxOps = 4
SPECIFICATION Spec
INVARIANT ValuePreserved
INVARIANT RenderRepeatable
INVARIANT Export
CHECK_DEADLOCK FALSE
