------------------------------ MODULE RoundTrip ------------------------------
(***************************************************************************)
(* C15: tokens survive serialisation and tree conversion; rendering is     *)
(* repeatable.  A state machine over a token-stream VALUE:                 *)
(*   val   the abstract value of the stream (everything as_dict shows,     *)
(*         except the alt attribute of image tokens, which render sets)    *)
(*   gen   which copy of the stream is held (a round trip makes a copy)    *)
(*   alt   whether render has already filled in image alt attributes       *)
(* Operations and their SPECIFIED effect:                                  *)
(*   RoundTrip(fmt, children)  as_dict in either attribute format, with or *)
(*        without children, then from_dict: a new copy with the same value *)
(*   Tree    SyntaxTreeNode(tokens).to_tokens(): the identical sequence    *)
(*   Render  same HTML every time; value unchanged (alt becomes set)       *)
(* TLC enumerates every operation sequence up to MaxOps; each is replayed  *)
(* on real token streams and validated by RoundTripTrace.tla.              *)
(***************************************************************************)
EXTENDS Integers, Sequences, FiniteSets, TLC, Json

CONSTANTS MaxOps
VARIABLES val, gen, alt, html, ops
vars == <<val, gen, alt, html, ops>>

Init == val = "V" /\ gen = 0 /\ alt = FALSE /\ html = "H" /\ ops = <<>>

RoundTripOp(fmt, ch) ==
    /\ gen' = gen + 1 /\ UNCHANGED <<val, alt, html>>
    /\ ops' = Append(ops, [op |-> "rt", fmt |-> fmt, children |-> ch])
Tree == /\ UNCHANGED <<val, gen, alt, html>> /\ ops' = Append(ops, [op |-> "tree"])
Render == /\ alt' = TRUE /\ UNCHANGED <<val, gen, html>> /\ ops' = Append(ops, [op |-> "render"])

Next == /\ Len(ops) < MaxOps
        /\ \/ \E fmt \in {"upstream", "py"}, ch \in BOOLEAN : RoundTripOp(fmt, ch)
           \/ Tree \/ Render
Spec == Init /\ [][Next]_vars

ValuePreserved == val = "V"
RenderRepeatable == html = "H"
Export == PrintT(ToJson(ops))
=============================================================================
