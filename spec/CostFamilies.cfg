INIT Init
NEXT Stop
CHECK_DEADLOCK FALSE
