CONSTANTS
  Alphabet <- L1
  Core <- L1Core
  Mid <- L1Mid
  MaxAll = 40
  MaxMid = 40
  MaxCore = 40
  Wrappers <- NoWrap
  MaxWrap = 0
  MaxDeep = 0
  DeepWraps = 0
SPECIFICATION Spec
CHECK_DEADLOCK FALSE
