------------------------------- MODULE UrlGen -------------------------------
(***************************************************************************)
(* Generator for C05: link destinations as a product of slots              *)
(*    lead  x  scheme segments (each with its spellings)  x  payload       *)
(* placed by a producer template (inline link, <...> destination,          *)
(* reference definition, image, autolink, ...).  One behaviour chooses the *)
(* slots left to right; a complete choice is exported as                   *)
(*    [parts |-> <<strings>>, prod |-> producer index]                     *)
(* and the harness only concatenates.  "{u+XXXX}" = code point U+XXXX.     *)
(***************************************************************************)
EXTENDS Integers, Sequences, FiniteSets, TLC, Json

CONSTANTS Leads,      \* sequence of strings
          Schemes,    \* sequence of schemes; a scheme is a sequence of slots; a slot is a sequence of spellings
          Payloads,   \* sequence of strings
          NProd       \* number of producer templates

VARIABLES sch, parts, prod
vars == <<sch, parts, prod>>

Init == /\ sch \in DOMAIN Schemes /\ prod \in 1..NProd /\ parts = <<>>

NSlots == Len(Schemes[sch]) + 2
Slot(k) == IF k = 1 THEN Leads
           ELSE IF k = NSlots THEN Payloads
           ELSE Schemes[sch][k - 1]

Choose == /\ Len(parts) < NSlots
          /\ \E a \in DOMAIN Slot(Len(parts) + 1) : parts' = Append(parts, Slot(Len(parts) + 1)[a])
          /\ UNCHANGED <<sch, prod>>

Next == (Len(parts) = NSlots => PrintT(ToJson([parts |-> parts, prod |-> prod]))) /\ Choose
Spec == Init /\ [][Next]_vars
=============================================================================
