------------------------------ MODULE Progress ------------------------------
(***************************************************************************)
(* C01 (termination half): the dispatch loops of the block parser, the     *)
(* inline parser and skipToken, over NONDETERMINISTIC rule bodies that     *)
(* obey the contract the loops rely on:                                    *)
(*   - a rule either fails (cursor unchanged) or succeeds and strictly     *)
(*     advances the cursor, at most to the end of the frame;               *)
(*   - a container rule may recurse into a sub-range one level deeper;     *)
(*   - the fallback (block `paragraph`, inline `text`-or-pending) always   *)
(*     advances;                                                           *)
(*   - at level >= MaxNesting the loop does not dispatch: it jumps to the  *)
(*     end of the frame.                                                   *)
(* `work` counts loop iterations.  With the fallback every behaviour       *)
(* terminates within a linear bound; Fallback = FALSE (an unsupported      *)
(* configuration) admits an iteration that does not advance, and the bound *)
(* is violated - which is why "supported" requires the fallback rules.     *)
(* The trace specification ProgressTrace.tla checks the same contract on   *)
(* dispatch events recorded from the real loops.                           *)
(***************************************************************************)
EXTENDS Integers, Sequences, FiniteSets, TLC

CONSTANTS N,          \* number of cursor positions (lines / characters)
          MaxNesting, \* options.maxNesting
          Fallback,   \* BOOLEAN: the fallback rule is enabled
          WorkCap     \* exploration bound for the non-terminating variant

VARIABLES stack,  \* Seq([cur, end]) : frames of tokenize(), innermost last
          work    \* loop iterations so far

vars == <<stack, work>>

Init == stack = <<[cur |-> 0, end |-> N]>> /\ work = 0

Top   == stack[Len(stack)]
Level == Len(stack) - 1
SetCur(c) == [stack EXCEPT ![Len(stack)].cur = c]

(* frame exhausted: return to the caller, which continues after the container *)
Return == /\ Len(stack) > 1 /\ Top.cur >= Top.end
          /\ stack' = SubSeq(stack, 1, Len(stack) - 1)
          /\ UNCHANGED work

(* nesting cut-off: no dispatch, jump to the end of the frame *)
Cutoff == /\ Top.cur < Top.end /\ Level >= MaxNesting
          /\ stack' = SetCur(Top.end)
          /\ work' = work + 1

(* a leaf rule (or the fallback) succeeds and advances *)
Leaf == /\ Top.cur < Top.end /\ Level < MaxNesting
        /\ \E n \in (Top.cur + 1)..Top.end : stack' = SetCur(n)
        /\ work' = work + 1

(* a container rule consumes [cur, n) and tokenizes a sub-range one level deeper *)
Container == /\ Top.cur < Top.end /\ Level < MaxNesting
             /\ \E n \in (Top.cur + 1)..Top.end :
                  stack' = Append(SetCur(n), [cur |-> Top.cur, end |-> n])
             /\ work' = work + 1

(* every rule fails and there is no fallback: the iteration does not advance *)
NoMatch == /\ ~Fallback /\ Top.cur < Top.end /\ Level < MaxNesting /\ work < WorkCap
           /\ work' = work + 1 /\ UNCHANGED stack

Next == Return \/ Cutoff \/ Leaf \/ Container \/ NoMatch
Spec == Init /\ [][Next]_vars /\ WF_vars(Next)

Done == Len(stack) = 1 /\ Top.cur >= Top.end

(* cursors stay inside their frame and frames nest *)
FramesOK == \A k \in DOMAIN stack :
               /\ 0 <= stack[k].cur /\ stack[k].cur <= stack[k].end /\ stack[k].end <= N
               /\ (k > 1 => stack[k].end <= stack[k - 1].cur)
DepthBounded == Level <= MaxNesting
(* linear work: each level re-scans a range at most once *)
WorkLinear == work <= N * (MaxNesting + 1)
Termination == <>Done
=============================================================================
