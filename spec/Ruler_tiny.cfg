CONSTANTS
  Names = {"a", "b"}
  Ghost = {"zz"}
  Chains = {"p"}
  MaxRules = 2
  MaxFn = 3
  MaxArgs = 1
  MaxDepth = 4
  Variant = "head"
SPECIFICATION Spec
VIEW view
CONSTRAINT Bound
CONSTRAINT PrintEdge
INVARIANT Coherent
INVARIANT AppliedIsReported
