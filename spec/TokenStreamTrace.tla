-------------------------- MODULE TokenStreamTrace --------------------------
(***************************************************************************)
(* C02: acceptor (pushdown) of token streams returned by parse/parseInline.*)
(* One trace = one stream, tokens depth-first, with "enter"/"exit" events   *)
(* around the children of a token.  Event fields:                          *)
(*   k  "t" token | "enter" | "exit" | "tree"                              *)
(*   ty type, b type without its last _suffix, s that suffix, g tag,       *)
(*   n nesting, v level, m markup, bl block flag (0/1), ch has children    *)
(* Clauses, each traced to a phrase of the statement:                      *)
(*   open_type/close_type   X_open / X_close kinds                         *)
(*   negative_depth         depth never goes negative                      *)
(*   mismatched_close       matching kind, tag and markup                  *)
(*   level                  each token's level equals its depth            *)
(*   unbalanced_at_end      ends at zero (block level and every children   *)
(*                          list)                                          *)
(*   children_on_non_container   only inline containers and images carry   *)
(*                          children                                       *)
(*   block_flag             block-level tokens flagged block, inline not   *)
(*                          (the parseInline wrapper is unconstrained: the *)
(*                          pinned suite fixes block=False there)          *)
(*   adjacent_text          adjacent text tokens are merged                *)
(*   placeholder_survives   no text_special anywhere                       *)
(*   tree_not_constructible SyntaxTreeNode(tokens) succeeds                *)
(***************************************************************************)
EXTENDS Integers, Sequences, FiniteSets, TLC, Json, IOUtils

VARIABLES tid, l, verdict, done,
          ctx   \* stack of contexts: [opens : Seq([b, g, m]), prevText : BOOLEAN, top : BOOLEAN]

tvars == <<tid, l, verdict, done, ctx>>

Data   == JsonDeserialize(IOEnv.TRACE_FILE)
Traces == Data.traces
Tr     == Traces[tid]
Ev     == Tr.ev

Top      == ctx[Len(ctx)]
Depth    == Len(Top.opens)
SetTop(c) == [ctx EXCEPT ![Len(ctx)] = c]

TokVerdict(e) ==
    LET opens == Top.opens
        d     == Len(opens)
    IN
    IF e.ty = "text_special" THEN "placeholder_survives"
    ELSE IF e.n = 1 /\ e.s # "open" THEN "open_type"
    ELSE IF e.n = -1 /\ e.s # "close" THEN "close_type"
    ELSE IF e.n = -1 /\ d = 0 THEN "negative_depth"
    ELSE IF e.n = -1 /\ (opens[d].b # e.b \/ opens[d].g # e.g \/ opens[d].m # e.m) THEN "mismatched_close"
    ELSE IF e.v # (IF e.n = -1 THEN d - 1 ELSE d) THEN "level"
    ELSE IF e.ch = 1 /\ e.ty \notin {"inline", "image"} THEN "children_on_non_container"
    ELSE IF Top.top /\ Tr.api = "parse" /\ e.bl # 1 THEN "block_flag"
    ELSE IF ~Top.top /\ e.bl # 0 THEN "block_flag"
    ELSE IF ~Top.top /\ e.ty = "text" /\ Top.prevText THEN "adjacent_text"
    ELSE "ok"

Consume ==
    LET e == Ev[l] IN
    /\ l' = l + 1
    /\ CASE e.k = "t" ->
              /\ verdict' = TokVerdict(e)
              /\ ctx' = IF verdict' # "ok" THEN ctx
                        ELSE SetTop([Top EXCEPT
                               !.opens = IF e.n = 1 THEN Append(@, [b |-> e.b, g |-> e.g, m |-> e.m])
                                         ELSE IF e.n = -1 THEN SubSeq(@, 1, Len(@) - 1) ELSE @,
                               !.prevText = (e.ty = "text")])
         [] e.k = "enter" ->
              /\ verdict' = "ok"
              /\ ctx' = Append(ctx, [opens |-> <<>>, prevText |-> FALSE, top |-> FALSE])
         [] e.k = "exit" ->
              /\ verdict' = IF Depth # 0 THEN "unbalanced_at_end" ELSE "ok"
              /\ ctx' = SubSeq(ctx, 1, Len(ctx) - 1)
         [] e.k = "tree" ->
              /\ verdict' = IF Depth # 0 \/ Len(ctx) # 1 THEN "unbalanced_at_end"
                            ELSE IF e.ok # 1 THEN "tree_not_constructible" ELSE "ok"
              /\ ctx' = ctx
    /\ UNCHANGED <<tid, done>>

Finish == /\ PrintT(<<"V", tid, verdict, l>>) /\ done' = TRUE /\ UNCHANGED <<tid, l, verdict, ctx>>

TraceInit == /\ tid \in 1..Len(Traces) /\ l = 1 /\ verdict = "ok" /\ done = FALSE
             /\ ctx = <<[opens |-> <<>>, prevText |-> FALSE, top |-> TRUE]>>

TraceNext == /\ ~done
             /\ IF verdict # "ok" \/ l > Len(Ev) THEN Finish ELSE Consume

TraceSpec == TraceInit /\ [][TraceNext]_tvars

(* acceptor sanity in every state *)
CtxNonEmpty == Len(ctx) >= 1
=============================================================================
