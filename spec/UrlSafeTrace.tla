---------------------------- MODULE UrlSafeTrace ----------------------------
(***************************************************************************)
(* C05: every emitted link destination / image source is percent-encoded   *)
(* URL-safe ASCII and, read the way a browser reads it, never carries a    *)
(* javascript:, vbscript:, file: or data: scheme other than                *)
(* data:image/gif|png|jpeg|webp; a rejected construct stays literal text.  *)
(* Trace: urls (every href/src of link_open/image tokens and every         *)
(* href/src attribute lexed from the rendered HTML, as code points),       *)
(* ntok (number of link_open/image tokens), html and lit (the rendering    *)
(* with and without the link-producing rules).                             *)
(***************************************************************************)
EXTENDS Integers, Sequences, FiniteSets, TLC, Json, IOUtils

VARIABLES tid, l, verdict, done
tvars == <<tid, l, verdict, done>>
Data   == JsonDeserialize(IOEnv.TRACE_FILE)
Traces == Data.traces
Tr     == Traces[tid]

IsHex(c) == (c >= 48 /\ c <= 57) \/ (c >= 65 /\ c <= 70) \/ (c >= 97 /\ c <= 102)
IsAlnum(c) == (c >= 48 /\ c <= 57) \/ (c >= 65 /\ c <= 90) \/ (c >= 97 /\ c <= 122)
(*  ; / ? : @ & = + $ , - _ . ! ~ * ' ( ) #  *)
SafePunct == {59, 47, 63, 58, 64, 38, 61, 43, 36, 44, 45, 95, 46, 33, 126, 42, 39, 40, 41, 35}

UrlSafe(u) ==
    \A k \in DOMAIN u :
        \/ IsAlnum(u[k]) \/ u[k] \in SafePunct
        \/ (u[k] = 37 /\ k + 2 <= Len(u) /\ IsHex(u[k + 1]) /\ IsHex(u[k + 2]))

(* browser reading: drop leading/trailing code points <= 0x20, delete TAB/LF/CR, ASCII lower-case *)
Lower(c) == IF c >= 65 /\ c <= 90 THEN c + 32 ELSE c
RECURSIVE DropLead(_)
DropLead(u) == IF u # <<>> /\ u[1] <= 32 THEN DropLead(Tail(u)) ELSE u
Clean(u) == LET v == SelectSeq(DropLead(u), LAMBDA c : c \notin {9, 10, 13}) IN [k \in DOMAIN v |-> Lower(v[k])]
StartsWith(u, p) == Len(u) >= Len(p) /\ SubSeq(u, 1, Len(p)) = p

JS   == <<106, 97, 118, 97, 115, 99, 114, 105, 112, 116, 58>>
VBS  == <<118, 98, 115, 99, 114, 105, 112, 116, 58>>
FILE == <<102, 105, 108, 101, 58>>
DATA == <<100, 97, 116, 97, 58>>
GoodData == { <<100,97,116,97,58,105,109,97,103,101,47,103,105,102,59>>,          \* data:image/gif;
              <<100,97,116,97,58,105,109,97,103,101,47,112,110,103,59>>,          \* data:image/png;
              <<100,97,116,97,58,105,109,97,103,101,47,106,112,101,103,59>>,      \* data:image/jpeg;
              <<100,97,116,97,58,105,109,97,103,101,47,119,101,98,112,59>> }      \* data:image/webp;

Dangerous(u) ==
    LET b == Clean(u) IN
    \/ StartsWith(b, JS) \/ StartsWith(b, VBS) \/ StartsWith(b, FILE)
    \/ (StartsWith(b, DATA) /\ ~\E g \in GoodData : StartsWith(b, g))

Verdict ==
    IF \E k \in DOMAIN Tr.urls : ~UrlSafe(Tr.urls[k]) THEN "unsafe_char"
    ELSE IF \E k \in DOMAIN Tr.urls : Dangerous(Tr.urls[k]) THEN "dangerous_scheme"
    ELSE IF Tr.ntok = 0 /\ Tr.urls = <<>> /\ Tr.html # Tr.lit THEN "rejected_not_literal"
    ELSE "ok"

Consume == /\ l' = l + 1 /\ verdict' = Verdict /\ UNCHANGED <<tid, done>>
Finish == /\ PrintT(<<"V", tid, verdict, l>>) /\ done' = TRUE /\ UNCHANGED <<tid, l, verdict>>
TraceInit == tid \in 1..Len(Traces) /\ l = 1 /\ verdict = "ok" /\ done = FALSE
TraceNext == /\ ~done
             /\ IF verdict # "ok" \/ l > 1 THEN Finish ELSE Consume
TraceSpec == TraceInit /\ [][TraceNext]_tvars
=============================================================================
