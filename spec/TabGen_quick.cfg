CONSTANTS
  Markers <- MCMarkers
  Leaves <- MCLeaves
  MaxSeg = 2
SPECIFICATION Spec
INVARIANT Export
INVARIANT ColumnsRight
CHECK_DEADLOCK FALSE
