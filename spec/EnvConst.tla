------------------------------ MODULE EnvConst ------------------------------
(* Exports the label classes of MCEnv.tla to the harness. *)
EXTENDS MCEnv
Stop == FALSE /\ UNCHANGED vars
ASSUME PrintT(ToJson([MCClasses |-> MCClasses, MCClassesQ |-> MCClassesQ]))
=============================================================================
