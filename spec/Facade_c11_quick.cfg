CONSTANTS
  Inst = {1}
  Presets = {"commonmark", "js-default", "zero"}
  ToggleNames = {"table", "emphasis", "strikethrough", "verif_block", "linkify", "nosuch"}
  MaxNames = 2
  OptChoices <- OptNone
  RRNames = {}
  Docs = {"D2"}
  Defines <- MCDefines
  FaultSites = {}
  MaxCtx = 1
  MaxDepth = 5
  ChainToggleChains = {"inline2"}
  Variant = "head"
SPECIFICATION SpecP
VIEW view
CONSTRAINT Bound
INVARIANT TypeOK
PROPERTY Isolation
PROPERTY ResetRestores
PROPERTY CallsAreInert
PROPERTY RoutesAgree
