CONSTANTS
  Inst = {1}
  Presets = {"commonmark", "js-default", "zero"}
  ToggleNames = {"emphasis"}
  MaxNames = 1
  OptChoices <- OptNone
  RRNames = {}
  Docs = {"D1"}
  Defines <- MCDefines
  FaultSites = {}
  MaxCtx = 2
  MaxDepth = 4
  ChainToggleChains = {"inline", "inline2"}
  Variant = "as_found"
SPECIFICATION SpecP
VIEW view
CONSTRAINT Bound
INVARIANT TypeOK
PROPERTY Isolation
PROPERTY ResetRestores
PROPERTY CallsAreInert
PROPERTY RoutesAgree
