---------------------------- MODULE VerbatimTrace ----------------------------
(***************************************************************************)
(* C08: verbatim content and recorded markup come from the source.         *)
(* Trace: lines (normalised input as code points) and events               *)
(*  [k |-> "t", ty, map, cl (content lines of code_block/fence/html_block),*)
(*   mk (markup), info, start, finfo, nq, nl]                              *)
(*      nq / nl = number of enclosing block quotes / list items            *)
(*  [k |-> "cs", n, body, has, content]  a generated code span             *)
(*      `ticks^n body ticks^n` and the content of the code_inline token    *)
(* Clauses:                                                                *)
(*  verbatim_line_count  number of content lines vs. the map               *)
(*  verbatim_altered     content line i is not (<=3 pad spaces, only after *)
(*                       a tab) + a suffix of source line, with the cut-   *)
(*                       off prefix made of indentation / container prefix *)
(*                       characters only (at most nq '>' ; list-marker     *)
(*                       characters only inside a list item)               *)
(*  verbatim_line_end_dropped  the content does not end with a line feed    *)
(*                       although its last source line does                *)
(*  verbatim_not_column_exact  outside containers: content line i is not   *)
(*                       source line i with exactly W columns of leading   *)
(*                       blanks removed (4 / the fence's indent / 0)       *)
(*  verbatim_not_column_exact_in_quote  the same inside block quotes, for  *)
(*                       tab-free lines that carry all their quote markers *)
(*  fence_markup / fence_info   line = prefix markup info, markup maximal  *)
(*  hr_markup            same character and COUNT as the markers written   *)
(*  heading_markup       '#'^level at the start of the line, maximal;      *)
(*                       setext: the underline character, in the last line *)
(*  container_markup     list / quote markup occurs in the first line      *)
(*  ordered_digits       item info = the digits written before the         *)
(*                       delimiter; list start = their value               *)
(*  code_span            content = body with line endings as spaces, one   *)
(*                       space stripped from each side iff both present    *)
(*                       and the text is not all U+0020                    *)
(***************************************************************************)
EXTENDS Integers, Sequences, FiniteSets, TLC, Json, IOUtils

VARIABLES tid, l, verdict, done
tvars == <<tid, l, verdict, done>>

Data   == JsonDeserialize(IOEnv.TRACE_FILE)
Traces == Data.traces
Tr     == Traces[tid]
Ev     == Tr.ev
Lines  == Tr.lines
Line(k) == Lines[k + 1]      \* 0-based

Blank == {32, 9}
Markers == {45, 43, 42, 46, 41} \cup (48..57)       \* - + * . ) digits
Count(s, c) == Cardinality({k \in DOMAIN s : s[k] = c})
Occurs(needle, hay) ==
    \E off \in 0..(Len(hay) - Len(needle)) : SubSeq(hay, off + 1, off + Len(needle)) = needle

(* a legal cut-off prefix of a source line for a token inside nq quotes and nl list items *)
PrefixOK(p, nq, nl) ==
    /\ \A k \in DOMAIN p : p[k] \in Blank \cup {62} \cup (IF nl > 0 THEN Markers ELSE {})
    /\ Count(p, 62) <= nq

Spaces(k) == [i \in 1..k |-> 32]

(* content line c comes from source line s *)
FromLine(c, s, nq, nl) ==
    \E k \in 0..Len(s) :
      LET p == SubSeq(s, 1, k) rest == SubSeq(s, k + 1, Len(s)) IN
      /\ PrefixOK(p, nq, nl)
      /\ \E pad \in 0..3 :
           /\ (pad > 0 => 9 \in {p[i] : i \in DOMAIN p})
           /\ c = Spaces(pad) \o rest

(* column-exact removal of W columns of leading indentation (columns counted from the physical line start,
   a partially consumed tab replaced by spaces): what the statement prescribes for a block that is not inside
   a container, where the width to remove is known from the source alone *)
RECURSIVE StripFrom(_, _, _, _)
StripFrom(s, k, col, W) ==
    IF k <= Len(s) /\ col < W /\ s[k] \in Blank
    THEN StripFrom(s, k + 1, IF s[k] = 9 THEN col + 4 - (col % 4) ELSE col + 1, W)
    ELSE Spaces(IF col > W THEN col - W ELSE 0) \o SubSeq(s, k, Len(s))
Strip(s, W) == StripFrom(s, 1, 0, W)
RECURSIVE LeadColsFrom(_, _, _)
LeadColsFrom(s, k, col) ==
    IF k <= Len(s) /\ s[k] \in Blank THEN LeadColsFrom(s, k + 1, IF s[k] = 9 THEN col + 4 - (col % 4) ELSE col + 1)
    ELSE col
LeadCols(s) == LeadColsFrom(s, 1, 0)

(* inside block quotes only (no list item around), for lines without tabs: remove nq times "up to three spaces,
   a quote marker, one optional space"; <<ok, rest>> - ok is FALSE when the line has no such prefix (not judged) *)
RECURSIVE SpacesAt(_, _)
SpacesAt(s, k) == IF k <= Len(s) /\ s[k] = 32 THEN 1 + SpacesAt(s, k + 1) ELSE 0
RECURSIVE Unquote(_, _)
Unquote(s, n) ==
    IF n = 0 THEN <<TRUE, s>>
    ELSE LET sp == SpacesAt(s, 1) IN
         IF sp > 3 \/ sp + 1 > Len(s) \/ s[sp + 1] # 62 THEN <<FALSE, s>>
         ELSE LET r == SubSeq(s, sp + 2, Len(s)) IN
              Unquote(IF r # <<>> /\ r[1] = 32 THEN Tail(r) ELSE r, n - 1)
NoTab(s) == \A k \in DOMAIN s : s[k] # 9
QuotedExact(e, first, n) ==
    LET open == Unquote(Line(e.map[1]), e.nq)
        W == CASE e.ty = "code_block" -> 4 [] e.ty = "fence" -> SpacesAt(open[2], 1) [] OTHER -> 0
    IN (e.ty # "fence" \/ (open[1] /\ NoTab(Line(e.map[1])))) =>
       \A i \in 1..n :
          LET src == Line(first + i - 1) u == Unquote(src, e.nq) IN
          (NoTab(src) /\ u[1]) => e.cl[i] = Strip(u[2], W)

VerbatimVerdict(e) ==
    LET b == e.map[1] en == e.map[2] n == Len(e.cl)
        first == IF e.ty = "fence" THEN b + 1 ELSE b
        W == CASE e.ty = "code_block" -> 4 [] e.ty = "fence" -> LeadCols(Line(b)) [] OTHER -> 0
        \* the source line of the last content line is terminated by a line feed in the (normalised) source
        terminated == n > 0 /\ (first + n - 1 < Len(Lines) - 1 \/ Tr.endnl = 1)
    IN
    IF e.ty = "fence" /\ ~(n = en - b - 1 \/ n = en - b - 2 \/ (n = 0 /\ en - b = 1)) THEN "verbatim_line_count"
    ELSE IF e.ty # "fence" /\ n # en - b THEN "verbatim_line_count"
    ELSE IF \E i \in 1..n : ~FromLine(e.cl[i], Line(first + i - 1), e.nq, e.nl) THEN "verbatim_altered"
    ELSE IF terminated /\ e.fin # 1 THEN "verbatim_line_end_dropped"
    ELSE IF e.nq = 0 /\ e.nl = 0 /\ \E i \in 1..n : e.cl[i] # Strip(Line(first + i - 1), W) THEN "verbatim_not_column_exact"
    ELSE IF e.nq > 0 /\ e.nl = 0 /\ ~QuotedExact(e, first, n) THEN "verbatim_not_column_exact_in_quote"
    ELSE "ok"

(* line = prefix ++ run ++ rest, run = c^k maximal *)
FenceVerdict(e) ==
    LET s == Line(e.map[1]) m == e.mk IN
    IF m = <<>> \/ \E k \in DOMAIN m : m[k] # m[1] THEN "fence_markup"
    ELSE IF ~\E k \in 0..(Len(s) - Len(m)) :
              /\ PrefixOK(SubSeq(s, 1, k), e.nq, e.nl)
              /\ SubSeq(s, k + 1, k + Len(m)) = m
              /\ (k + Len(m) < Len(s) => s[k + Len(m) + 1] # m[1])
              /\ (k > 0 => s[k] # m[1])
         THEN "fence_markup"
    ELSE IF ~\E k \in 0..(Len(s) - Len(m)) :
              /\ PrefixOK(SubSeq(s, 1, k), e.nq, e.nl)
              /\ SubSeq(s, k + 1, k + Len(m)) = m
              /\ SubSeq(s, k + Len(m) + 1, Len(s)) = e.info
         THEN "fence_info"
    ELSE "ok"

HrVerdict(e) ==
    LET s == Line(e.map[1]) m == e.mk IN
    IF m = <<>> \/ m[1] \notin {42, 45, 95} \/ \E k \in DOMAIN m : m[k] # m[1] THEN "hr_markup"
    ELSE IF ~\E k \in 0..Len(s) :
              LET rest == SubSeq(s, k + 1, Len(s)) IN
              /\ PrefixOK(SubSeq(s, 1, k), e.nq, e.nl)
              /\ \A i \in DOMAIN rest : rest[i] \in Blank \cup {m[1]}
              /\ Count(rest, m[1]) = Len(m)
         THEN "hr_markup"
    ELSE "ok"

HeadingVerdict(e) ==
    LET m == e.mk IN
    IF m = <<>> THEN "heading_markup"
    ELSE IF m[1] = 35 THEN      \* ATX
        LET s == Line(e.map[1]) IN
        IF \E k \in 0..(Len(s) - Len(m)) :
              /\ PrefixOK(SubSeq(s, 1, k), e.nq, e.nl)
              /\ SubSeq(s, k + 1, k + Len(m)) = m
              /\ \A i \in DOMAIN m : m[i] = 35
              /\ (k + Len(m) < Len(s) => s[k + Len(m) + 1] # 35)
        THEN "ok" ELSE "heading_markup"
    ELSE                          \* setext: underline character in the last line of the token
        IF Len(m) = 1 /\ m[1] \in {61, 45} /\ e.map[2] - e.map[1] >= 2 /\ Count(Line(e.map[2] - 1), m[1]) >= 1
        THEN "ok" ELSE "heading_markup"

ContainerVerdict(e) ==
    IF e.mk # <<>> /\ Occurs(e.mk, Line(e.map[1])) THEN "ok" ELSE "container_markup"

RECURSIVE Value(_)
Value(d) == IF d = <<>> THEN 0 ELSE 10 * Value(SubSeq(d, 1, Len(d) - 1)) + (d[Len(d)] - 48)

ItemVerdict(e) ==
    IF e.info = <<>> THEN ContainerVerdict(e)
    ELSE LET s == Line(e.map[1]) w == e.info \o e.mk IN
         IF /\ \A k \in DOMAIN e.info : e.info[k] \in 48..57
            /\ \E off \in 0..(Len(s) - Len(w)) :
                 /\ SubSeq(s, off + 1, off + Len(w)) = w
                 /\ (off > 0 => s[off] \notin 48..57)
         THEN "ok" ELSE "ordered_digits"

OrderedVerdict(e) ==
    IF ContainerVerdict(e) # "ok" THEN "container_markup"
    ELSE IF e.finfo # <<>> /\ Value(e.finfo) # e.start THEN "ordered_digits" ELSE "ok"

(* code spans *)
AllSpaces(s) == \A k \in DOMAIN s : s[k] = 32
NormBody(b) == [k \in DOMAIN b |-> IF b[k] = 10 THEN 32 ELSE b[k]]
ExpectedSpan(b) ==
    LET t == NormBody(b) IN
    IF Len(t) >= 2 /\ t[1] = 32 /\ t[Len(t)] = 32 /\ ~AllSpaces(t) THEN SubSeq(t, 2, Len(t) - 1) ELSE t

Check(e) ==
    IF e.k = "cs" THEN (IF e.has = 1 /\ e.content = ExpectedSpan(e.body) THEN "ok" ELSE "code_span")
    ELSE IF e.ty \in {"code_block", "html_block"} THEN VerbatimVerdict(e)
    ELSE IF e.ty = "fence" THEN (IF VerbatimVerdict(e) # "ok" THEN VerbatimVerdict(e) ELSE FenceVerdict(e))
    ELSE IF e.ty = "hr" THEN HrVerdict(e)
    ELSE IF e.ty = "heading_open" THEN HeadingVerdict(e)
    ELSE IF e.ty \in {"blockquote_open", "bullet_list_open"} THEN ContainerVerdict(e)
    ELSE IF e.ty = "ordered_list_open" THEN OrderedVerdict(e)
    ELSE IF e.ty = "list_item_open" THEN ItemVerdict(e)
    ELSE "ok"

Consume == /\ l' = l + 1 /\ verdict' = Check(Ev[l]) /\ UNCHANGED <<tid, done>>
Finish == /\ PrintT(<<"V", tid, verdict, l>>) /\ done' = TRUE /\ UNCHANGED <<tid, l, verdict>>
TraceInit == tid \in 1..Len(Traces) /\ l = 1 /\ verdict = "ok" /\ done = FALSE
TraceNext == /\ ~done
             /\ IF verdict # "ok" \/ l > Len(Ev) THEN Finish ELSE Consume
TraceSpec == TraceInit /\ [][TraceNext]_tvars
=============================================================================
