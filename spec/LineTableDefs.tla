---------------------------- MODULE LineTableDefs ----------------------------
(***************************************************************************)
(* The line table of the block parser (rules_block/state_block.py):        *)
(* growth beyond the listed properties (DESIGN section 8), the mechanism   *)
(* under C03 / C08 / C17.                                                  *)
(*                                                                         *)
(*  1. WHAT the table is, declaratively (Table): the source is cut at line *)
(*     feeds; line k is [b, e); tShift = number of leading blanks, sCount  *)
(*     = their width in columns with tabs expanded to 4-column stops; a    *)
(*     last line without line feed exists iff it holds a non-blank         *)
(*     character; one sentinel entry <<len, len, 0, 0>> follows.           *)
(*  2. HOW the code builds it: the one-pass scanner of                     *)
(*     StateBlock.__init__ as a state machine (Scan), one step per         *)
(*     character.  TLC checks  Done => scanned table = Table(src)  for ALL *)
(*     strings up to MaxLen over Alpha (ScanRefinesTable).                 *)
(*  3. the derived readers isEmpty / skipEmptyLines / skipSpaces /         *)
(*     skipSpacesBack / skipCharsStr(Back) / getLines as operators over    *)
(*     the table (used by LineTableTrace to validate the real object).     *)
(***************************************************************************)
EXTENDS Integers, Sequences, FiniteSets, TLC

Blank == {32, 9}
Spaces(k) == [i \in 1..k |-> 32]
At(src, p) == src[p + 1]                       \* 0-based character access

-----------------------------------------------------------------------------
(* 1. declarative definition *)
RECURSIVE FirstLF(_, _)
FirstLF(src, p) ==                              \* 0-based position of the first LF at or after p, -1 if none
    IF p >= Len(src) THEN -1 ELSE IF At(src, p) = 10 THEN p ELSE FirstLF(src, p + 1)

RECURSIVE LeadBlanks(_, _, _)
LeadBlanks(src, p, e) == IF p < e /\ At(src, p) \in Blank THEN 1 + LeadBlanks(src, p + 1, e) ELSE 0

RECURSIVE Cols(_, _, _, _)
Cols(src, p, n, col) ==                         \* width of n blanks starting at p when the first stands at column col
    IF n = 0 THEN col
    ELSE Cols(src, p + 1, n - 1, IF At(src, p) = 9 THEN col + 4 - (col % 4) ELSE col + 1)

Entry(src, b, e) ==
    LET n == LeadBlanks(src, b, e) IN [b |-> b, e |-> e, ts |-> n, sc |-> Cols(src, b, n, 0)]

RECURSIVE LinesFrom(_, _)
LinesFrom(src, b) ==
    LET p == FirstLF(src, b) IN
    IF p >= 0 THEN <<Entry(src, b, p)>> \o LinesFrom(src, p + 1)
    ELSE IF b < Len(src) /\ LeadBlanks(src, b, Len(src)) < Len(src) - b THEN <<Entry(src, b, Len(src))>>
    ELSE <<>>                                   \* a trailing blank-only piece without line feed is no line

Sentinel(src) == [b |-> Len(src), e |-> Len(src), ts |-> 0, sc |-> 0]
Table(src) == LinesFrom(src, 0) \o <<Sentinel(src)>>
LineMax(src) == Len(Table(src)) - 1

-----------------------------------------------------------------------------
(* 3. readers over a table t (a sequence of entries with an extra field bs = bsCount) of a source s;
      lines are 0-based: Ln(t, k) is entry k + 1 *)
Ln(t, k) == t[k + 1]
IsEmpty(t, k) == Ln(t, k).b + Ln(t, k).ts >= Ln(t, k).e

RECURSIVE SkipEmptyLines(_, _, _)
SkipEmptyLines(t, lineMax, from) ==
    IF from < lineMax /\ IsEmpty(t, from) THEN SkipEmptyLines(t, lineMax, from + 1) ELSE from

RECURSIVE SkipSpaces(_, _)
SkipSpaces(s, p) == IF p < Len(s) /\ At(s, p) \in Blank THEN SkipSpaces(s, p + 1) ELSE p

RECURSIVE SkipSpacesBack(_, _, _)
SkipSpacesBack(s, p, min) ==
    IF p <= min THEN p ELSE IF At(s, p - 1) \notin Blank THEN p ELSE SkipSpacesBack(s, p - 1, min)

RECURSIVE SkipChars(_, _, _)
SkipChars(s, p, c) == IF p < Len(s) /\ At(s, p) = c THEN SkipChars(s, p + 1, c) ELSE p

RECURSIVE SkipCharsBack(_, _, _, _)
SkipCharsBack(s, p, c, min) ==
    IF p <= min THEN p ELSE IF At(s, p - 1) # c THEN p ELSE SkipCharsBack(s, p - 1, c, min)

(* getLines: per line remove up to `ind` columns of indentation; a tab is measured from the line's
   virtual column bs; characters before tShift that a block quote has masked count one column each;
   a partially consumed tab is given back as spaces *)
RECURSIVE CutFrom(_, _, _, _, _, _)
CutFrom(s, e, first, last, col, ind) ==       \* returns <<first, col>> after the `while` of getLines
    IF first < last /\ col < ind THEN
        LET c == At(s, first) IN
        IF c \in Blank THEN CutFrom(s, e, first + 1, last, IF c = 9 THEN col + 4 - ((col + e.bs) % 4) ELSE col + 1, ind)
        ELSE IF first - e.b < e.ts THEN CutFrom(s, e, first + 1, last, col + 1, ind)
        ELSE <<first, col>>
    ELSE <<first, col>>

Slice(s, a, b) == SubSeq(s, a + 1, IF b > Len(s) THEN Len(s) ELSE b)   \* s[a:b] with Python's clamping

CutLine(s, e, last, ind) ==
    LET r == CutFrom(s, e, e.b, last, 0, ind) IN
    (IF r[2] > ind THEN Spaces(r[2] - ind) ELSE <<>>) \o Slice(s, r[1], last)

RECURSIVE GetLines(_, _, _, _, _, _)
GetLines(s, t, begin, end, ind, keepLastLF) ==
    IF begin >= end THEN <<>>
    ELSE LET e == Ln(t, begin)
             last == IF begin + 1 < end \/ keepLastLF THEN e.e + 1 ELSE e.e
         IN CutLine(s, e, last, ind) \o GetLines(s, t, begin + 1, end, ind, keepLastLF)
=============================================================================
