CONSTANTS
  MaxAll = 2
  MaxCore = 3
SPECIFICATION Spec
CHECK_DEADLOCK FALSE
