CONSTANTS
  Alpha = {32, 9, 10, 120}
  MaxLen = 4
  ScanTab = 8
SPECIFICATION ScanSpec
INVARIANT ScanRefinesTable
INVARIANT TableWellFormed
CHECK_DEADLOCK FALSE
