-------------------------------- MODULE MCEnv --------------------------------
EXTENDS Env
MCClasses == <<
   <<"ab", "AB", "aB", " ab ">>,
   <<"a b", "A  B", "a\tb", "a\nb">>,
   <<"{u+1e9e}", "{u+00df}", "SS", "ss">>,
   <<"{u+03a3}", "{u+03c3}", "{u+03c2}">>,
   <<"{u+212a}x", "kx", "KX">>,
   <<"{u+00e9}", "{u+00c9}">>,
   <<"e{u+0301}", "E{u+0301}">>,
   <<"i", "I">>,
   <<"{u+0131}">>,
   <<"a-b", "A-B">>
>>
MCClassesQ == <<
   <<"ab", "AB">>, <<"a b", "A\tB">>, <<"{u+1e9e}", "ss">>, <<"i", "I">>, <<"{u+0131}">>, <<"{u+03a3}", "{u+03c2}">>
>>
MCKindsQ == <<"one", "nextline", "bsline">>
MCKinds == <<"one", "title", "nextline", "multiline", "bsline", "lfref">>
MCDKinds == <<"one", "quoted", "quotedtitle", "lazytitle", "lazydest", "listed", "listlazy">>
MCDKindsQ == <<"one", "lazytitle", "lazydest", "listlazy">>
=============================================================================
