--------------------------- MODULE LineTableTrace ---------------------------
(***************************************************************************)
(* Binds LineTableDefs to the real StateBlock (growth, ./check system).    *)
(* Trace (one per source):                                                 *)
(*   src   code points of the (already normalised) source                  *)
(*   tab   the five arrays of a freshly constructed StateBlock, zipped:    *)
(*         <<bMarks, eMarks, tShift, sCount, bsCount>> per entry           *)
(*   lmax  state.lineMax                                                   *)
(*   q     reader calls made on the fresh object, each <<name, args, res>> *)
(* Clauses: line_table (arrays # Table(src)), line_max, and one per reader *)
(* whose result differs from the operator of LineTableDefs.                *)
(***************************************************************************)
EXTENDS LineTableDefs, Json, IOUtils

VARIABLES tid, l, verdict, done
tvars == <<tid, l, verdict, done>>
Data   == JsonDeserialize(IOEnv.TRACE_FILE)
Traces == Data.traces
Tr     == Traces[tid]

Expected == Table(Tr.src)
Obs == [k \in DOMAIN Tr.tab |-> [b |-> Tr.tab[k][1], e |-> Tr.tab[k][2], ts |-> Tr.tab[k][3], sc |-> Tr.tab[k][4]]]
WithBs == [k \in DOMAIN Tr.tab |-> [b |-> Tr.tab[k][1], e |-> Tr.tab[k][2], ts |-> Tr.tab[k][3], sc |-> Tr.tab[k][4],
                                    bs |-> Tr.tab[k][5]]]

Reader(c) ==
    LET a == c[2] s == Tr.src t == WithBs IN
    CASE c[1] = "isEmpty" -> (IF IsEmpty(t, a[1]) THEN 1 ELSE 0) = c[3]
      [] c[1] = "skipEmptyLines" -> SkipEmptyLines(t, Tr.lmax, a[1]) = c[3]
      [] c[1] = "skipSpaces" -> SkipSpaces(s, a[1]) = c[3]
      [] c[1] = "skipSpacesBack" -> SkipSpacesBack(s, a[1], a[2]) = c[3]
      [] c[1] = "skipCharsStr" -> SkipChars(s, a[1], a[2]) = c[3]
      [] c[1] = "skipCharsStrBack" -> SkipCharsBack(s, a[1], a[2], a[3]) = c[3]
      [] c[1] = "getLines" -> GetLines(s, t, a[1], a[2], a[3], a[4] = 1) = c[3]
      [] OTHER -> FALSE

Verdict ==
    IF Obs # Expected THEN "line_table"
    ELSE IF \E k \in DOMAIN Tr.tab : Tr.tab[k][5] # 0 THEN "bsCount_not_zero"
    ELSE IF Tr.lmax # LineMax(Tr.src) THEN "line_max"
    ELSE LET bad == {k \in DOMAIN Tr.q : ~Reader(Tr.q[k])} IN
         IF bad = {} THEN "ok" ELSE Tr.q[CHOOSE k \in bad : \A j \in bad : k <= j][1]

Consume == /\ l' = l + 1 /\ verdict' = Verdict /\ UNCHANGED <<tid, done>>
Finish == /\ PrintT(<<"V", tid, verdict, l>>) /\ done' = TRUE /\ UNCHANGED <<tid, l, verdict>>
TraceInit == tid \in 1..Len(Traces) /\ l = 1 /\ verdict = "ok" /\ done = FALSE
TraceNext == /\ ~done
             /\ IF verdict # "ok" \/ l > 1 THEN Finish ELSE Consume
TraceSpec == TraceInit /\ [][TraceNext]_tvars
=============================================================================
