----------------------------- MODULE MCEmphGen -----------------------------
(* Emphasis sentences: delimiter runs alternating with word segments whose spacing decides the flanking of
   the neighbouring runs (slot product generator of UrlGen.tla: lead x slots x payload).  Every combination of
   3 / 4 runs is exported; C02 executes all of them. *)
EXTENDS UrlGen
ERuns == <<"*", "**", "***", "_", "__">>
ESegs == <<"a", " a", "a ", " a ">>
EOne == <<"">>
ESchemes == << <<ERuns, ESegs, ERuns, ESegs, ERuns>>,
               <<ERuns, ESegs, ERuns, ESegs, ERuns, ESegs, ERuns>> >>
=============================================================================
