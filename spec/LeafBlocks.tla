------------------------------ MODULE LeafBlocks ------------------------------
(***************************************************************************)
(* Block starts (growth, ./check system): which block a single line opens, *)
(* written out declaratively from CommonMark, against the real block       *)
(* machine - the recognisers at the head of the block chain and their      *)
(* precedence.  One line over Alpha (no "[", "<", ">", "|" : references,   *)
(* HTML, quotes and tables have their own checks), columns counted with    *)
(* tab stops of four.                                                      *)
(*   blank          nothing but spaces / tabs: no token                    *)
(*   code_block     first character at column >= 4                         *)
(*   fence          a run of >= 3 "`" or "~"; for "`" no further "`" in    *)
(*                  the line; markup = the run, info = the rest            *)
(*   hr             >= 3 of one of "*" "-" "_", otherwise only blanks;     *)
(*                  markup = that many markers                             *)
(*   bullet list    "*" "-" "+" followed by a blank or the end             *)
(*   ordered list   1-9 digits, "." or ")", then a blank or the end;       *)
(*                  markup = the delimiter, start = the number (attribute  *)
(*                  only when it is not 1)                                 *)
(*   heading        1-6 "#" followed by a blank or the end                 *)
(*   paragraph      everything else                                        *)
(* in this order of precedence (the order of the block chain).             *)
(* Trace: calls <<line, type, markup, info, start>> of the first token of  *)
(* parse(line) ("blank" if none; start = -1 when there is no attribute).   *)
(***************************************************************************)
EXTENDS Integers, Sequences, FiniteSets, TLC, Json, IOUtils

VARIABLES tid, l, verdict, done
tvars == <<tid, l, verdict, done>>
Data   == JsonDeserialize(IOEnv.TRACE_FILE)
Traces == Data.traces
Calls  == Traces[tid].calls

Blank == {32, 9}
RECURSIVE LeadCols(_, _, _)
LeadCols(s, k, col) == IF k <= Len(s) /\ s[k] \in Blank THEN LeadCols(s, k + 1, IF s[k] = 9 THEN col + 4 - (col % 4) ELSE col + 1) ELSE col
RECURSIVE DropBlanks(_)
DropBlanks(s) == IF s # <<>> /\ s[1] \in Blank THEN DropBlanks(Tail(s)) ELSE s
RECURSIVE RunLen(_, _)
RunLen(s, c) == IF s # <<>> /\ s[1] = c THEN 1 + RunLen(Tail(s), c) ELSE 0
Count(s, c) == Cardinality({k \in DOMAIN s : s[k] = c})
Rep(c, n) == [i \in 1..n |-> c]
RECURSIVE Digits(_)
Digits(s) == IF s # <<>> /\ s[1] \in 48..57 THEN 1 + Digits(Tail(s)) ELSE 0
RECURSIVE Value(_)
Value(d) == IF d = <<>> THEN 0 ELSE 10 * Value(SubSeq(d, 1, Len(d) - 1)) + (d[Len(d)] - 48)
After(s, n) == SubSeq(s, n + 1, Len(s))

IsFence(r) == /\ r[1] \in {96, 126} /\ RunLen(r, r[1]) >= 3
              /\ (r[1] = 96 => Count(After(r, RunLen(r, 96)), 96) = 0)
IsHr(r) == /\ r[1] \in {42, 45, 95} /\ \A k \in DOMAIN r : r[k] \in Blank \cup {r[1]} /\ Count(r, r[1]) >= 3
IsBullet(r) == r[1] \in {42, 45, 43} /\ (Len(r) = 1 \/ r[2] \in Blank)
IsOrdered(r) == LET d == Digits(r) IN
                /\ d >= 1 /\ d <= 9 /\ Len(r) > d /\ r[d + 1] \in {46, 41}
                /\ (Len(r) = d + 1 \/ r[d + 2] \in Blank)
IsHeading(r) == LET n == RunLen(r, 35) IN n >= 1 /\ n <= 6 /\ (Len(r) = n \/ r[n + 1] \in Blank)

(* expected <<type, markup, info, start>> of the first token *)
Expected(s) ==
    LET r == DropBlanks(s) IN
    IF r = <<>> THEN <<"blank", <<>>, <<>>, -1>>
    ELSE IF LeadCols(s, 1, 0) >= 4 THEN <<"code_block", <<>>, <<>>, -1>>
    ELSE IF IsFence(r) THEN <<"fence", Rep(r[1], RunLen(r, r[1])), After(r, RunLen(r, r[1])), -1>>
    ELSE IF IsHr(r) THEN <<"hr", Rep(r[1], Count(r, r[1])), <<>>, -1>>
    ELSE IF IsBullet(r) THEN <<"bullet_list_open", <<r[1]>>, <<>>, -1>>
    ELSE IF IsOrdered(r) THEN LET d == Digits(r) v == Value(SubSeq(r, 1, d)) IN
                              <<"ordered_list_open", <<r[d + 1]>>, <<>>, IF v = 1 THEN -1 ELSE v>>
    ELSE IF IsHeading(r) THEN <<"heading_open", Rep(35, RunLen(r, 35)), <<>>, -1>>
    ELSE <<"paragraph_open", <<>>, <<>>, -1>>

Check(c) ==
    LET e == Expected(c[1]) IN
    IF c[2] # e[1] THEN "block_start:" \o e[1]
    ELSE IF c[3] # e[2] THEN "block_start_markup"
    ELSE IF c[4] # e[3] THEN "block_start_info"
    ELSE IF c[5] # e[4] THEN "block_start_number"
    ELSE "ok"

Consume == /\ l' = l + 1 /\ verdict' = Check(Calls[l]) /\ UNCHANGED <<tid, done>>
Finish == /\ PrintT(<<"V", tid, verdict, l>>) /\ done' = TRUE /\ UNCHANGED <<tid, l, verdict>>
TraceInit == tid \in 1..Len(Traces) /\ l = 1 /\ verdict = "ok" /\ done = FALSE
TraceNext == /\ ~done
             /\ IF verdict # "ok" \/ l > Len(Calls) THEN Finish ELSE Consume
TraceSpec == TraceInit /\ [][TraceNext]_tvars
=============================================================================
