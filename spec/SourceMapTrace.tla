--------------------------- MODULE SourceMapTrace ---------------------------
(***************************************************************************)
(* C03: acceptor of the source maps of one parse.  Trace:                  *)
(*   lines : the normalised input, one sequence of code points per line    *)
(*   ev    : block tokens depth-first                                      *)
(*           [k |-> "t", ty, n (nesting), map (<<b, e>> or <<>>),          *)
(*            cl (content lines of an inline token, code points),          *)
(*            cell (1 inside a table cell)]                                *)
(*           then [k |-> "env", map] per reference definition recorded in  *)
(*           env (references and duplicate_refs), then [k |-> "end"].      *)
(* Clauses:                                                                *)
(*   range            0 <= b < e <= number of lines                        *)
(*   starts_blank     line b is blank                                      *)
(*   outside_parent   not inside the map of the enclosing mapped token     *)
(*   before_sibling   starts before the end of the preceding sibling       *)
(*   ends_blank       paragraph/heading/hr/code_block/tr ends on a blank   *)
(*   content_lines    an inline container has more content lines than e-b  *)
(*   content_not_in_line  content line i does not occur in source line b+i *)
(*                    (lines trimmed from either end of the content must   *)
(*                    hold only white space, and shift i accordingly)      *)
(*                    (leading blanks of the content line ignored: a       *)
(*                    partially consumed tab is re-spelled as spaces; in   *)
(*                    table cells "\|" in the source is read as "|")       *)
(*   uncovered_line   a non-blank line in no top-level map and no          *)
(*                    definition map                                       *)
(***************************************************************************)
EXTENDS Integers, Sequences, FiniteSets, TLC, Json, IOUtils

VARIABLES tid, l, verdict, done,
          encl,     \* stack of enclosing maps <<b, e>> (bottom = whole document)
          prevEnd,  \* per depth: end of the preceding sibling
          covered   \* lines covered by top-level maps and definition maps

tvars == <<tid, l, verdict, done, encl, prevEnd, covered>>

Data   == JsonDeserialize(IOEnv.TRACE_FILE)
Traces == Data.traces
Tr     == Traces[tid]
Ev     == Tr.ev
Lines  == Tr.lines
NL     == Len(Lines)

IsBlank(s) == \A k \in DOMAIN s : s[k] \in {32, 9}
BlankLine(k) == IsBlank(Lines[k + 1])          \* k is 0-based

(* characters the paragraph/heading trim removes (Unicode White_Space) *)
WS == {9, 10, 11, 12, 13, 28, 29, 30, 31, 32, 133, 160, 5760, 8232, 8233, 8239, 8287, 12288} \cup (8192..8202)
UniBlank(s) == \A k \in DOMAIN s : s[k] \in WS
(* a source line whose content the trim removed entirely: white space, after the container prefix of the line
   (block quote markers, a list marker) *)
PrefixChars == {62, 45, 43, 42, 46, 41} \cup (48..57)
TrimmedAway(s) == /\ \A k \in DOMAIN s : s[k] \in WS \cup PrefixChars
                  \* ... and it is not blank for Markdown (a line of spaces / tabs would have ended the block):
                  \* it holds white space that only the trim knows (NBSP, form feed, U+2003, ...)
                  /\ \E k \in DOMAIN s : s[k] \in WS \ {32, 9}

RECURSIVE StripLead(_)
StripLead(s) == IF s # <<>> /\ s[1] \in {32, 9} THEN StripLead(Tail(s)) ELSE s

Occurs(needle, hay) ==
    \E off \in 0..(Len(hay) - Len(needle)) : SubSeq(hay, off + 1, off + Len(needle)) = needle

RECURSIVE UnescPipes(_)
UnescPipes(s) ==
    IF Len(s) < 2 THEN s
    ELSE IF s[1] = 92 /\ s[2] = 124 THEN <<124>> \o UnescPipes(SubSeq(s, 3, Len(s)))
    ELSE <<s[1]>> \o UnescPipes(Tail(s))

EndsNonBlank == {"paragraph_open", "heading_open", "hr", "code_block", "tr_open"}

D == Len(encl)

MapVerdict(e) ==
    LET b == e.map[1] en == e.map[2] IN
    IF ~(0 <= b /\ b < en /\ en <= NL) THEN "range"
    ELSE IF BlankLine(b) THEN "starts_blank"
    ELSE IF ~(encl[D][1] <= b /\ en <= encl[D][2]) THEN "outside_parent"
    ELSE IF b < prevEnd[D] THEN "before_sibling"
    ELSE IF e.ty \in EndsNonBlank /\ BlankLine(en - 1) THEN "ends_blank"
    ELSE IF e.ty = "inline" /\ e.cl # <<>> /\ Len(e.cl) > en - b THEN "content_lines"
    ELSE IF e.ty = "inline" /\ e.cl # <<>> /\
            ~\E off \in 0..(en - b - Len(e.cl)) :
               \* lines trimmed away before / after the content hold nothing but white space
               /\ \A k \in 0..(en - b - 1) :
                     (k < off \/ k >= off + Len(e.cl)) => TrimmedAway(Lines[b + k + 1])
               /\ \A i \in 1..Len(e.cl) :
                     LET c == StripLead(e.cl[i]) src == Lines[b + off + i] IN
                     Occurs(c, src) \/ (e.cell = 1 /\ Occurs(c, UnescPipes(src)))
         THEN "content_not_in_line"
    ELSE "ok"

Consume ==
    LET e == Ev[l] IN
    /\ l' = l + 1
    /\ CASE e.k = "t" ->
              LET has == e.map # <<>>
                  v   == IF has THEN MapVerdict(e) ELSE "ok"
                  here == IF has THEN <<e.map[1], e.map[2]>> ELSE encl[D]
              IN
              /\ verdict' = v
              /\ covered' = IF has /\ D = 1 /\ v = "ok" THEN covered \cup (e.map[1]..(e.map[2] - 1)) ELSE covered
              /\ IF v # "ok" THEN UNCHANGED <<encl, prevEnd>>
                 ELSE IF e.n = 1 THEN
                      /\ encl' = Append(encl, here)
                      /\ prevEnd' = Append(IF has THEN [prevEnd EXCEPT ![D] = e.map[2]] ELSE prevEnd, here[1])
                 ELSE IF e.n = -1 THEN
                      /\ encl' = SubSeq(encl, 1, D - 1)
                      /\ prevEnd' = SubSeq(prevEnd, 1, D - 1)
                 ELSE /\ encl' = encl
                      /\ prevEnd' = IF has THEN [prevEnd EXCEPT ![D] = e.map[2]] ELSE prevEnd
         [] e.k = "env" ->
              /\ verdict' = IF 0 <= e.map[1] /\ e.map[1] < e.map[2] /\ e.map[2] <= NL THEN "ok" ELSE "range"
              /\ covered' = covered \cup (e.map[1]..(e.map[2] - 1))
              /\ UNCHANGED <<encl, prevEnd>>
         [] e.k = "end" ->
              /\ verdict' = IF \E k \in 0..(NL - 1) : ~BlankLine(k) /\ k \notin covered THEN "uncovered_line" ELSE "ok"
              /\ UNCHANGED <<encl, prevEnd, covered>>
    /\ UNCHANGED <<tid, done>>

Finish == /\ PrintT(<<"V", tid, verdict, l>>) /\ done' = TRUE
          /\ UNCHANGED <<tid, l, verdict, encl, prevEnd, covered>>

TraceInit == /\ tid \in 1..Len(Traces) /\ l = 1 /\ verdict = "ok" /\ done = FALSE
             /\ encl = <<<<0, NL>>>> /\ prevEnd = <<0>> /\ covered = {}
TraceNext == /\ ~done
             /\ IF verdict # "ok" \/ l > Len(Ev) THEN Finish ELSE Consume
TraceSpec == TraceInit /\ [][TraceNext]_tvars
StackOK == Len(encl) >= 1 /\ Len(prevEnd) = Len(encl)
=============================================================================
