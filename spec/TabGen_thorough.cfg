CONSTANTS
  Markers <- MCMarkers
  Leaves <- MCLeaves
  MaxSeg = 3
SPECIFICATION Spec
INVARIANT Export
INVARIANT ColumnsRight
CHECK_DEADLOCK FALSE
