---------------------------- MODULE ProgressTrace ----------------------------
(***************************************************************************)
(* C01: acceptor of one API call (parse / render / parseInline /           *)
(* renderInline / CLI).  Trace: [allowed, maxn, ev] where ev is            *)
(*   ["d", kind, sid, level, cur, end, silent]  a dispatch of the rule     *)
(*        chain observed by a spy rule at the head of the block ("b") or   *)
(*        inline ("i") chain (only in observed runs), and finally          *)
(*   ["o", outcome, exc]   outcome in returned | raised | budget           *)
(* Clauses (the loop contract of Progress.tla, on the real loops):         *)
(*   raised                     no exception except the documented ones    *)
(*   no_progress_budget         the call exceeded its step budget (hang)   *)
(*   cursor_did_not_advance     two non-silent dispatches of one loop at   *)
(*                              the same or a smaller cursor               *)
(*   dispatch_outside_frame     a dispatch at or beyond the frame end      *)
(*   dispatch_beyond_max_nesting                                           *)
(***************************************************************************)
EXTENDS Integers, Sequences, FiniteSets, TLC, Json, IOUtils

VARIABLES tid, l, verdict, done,
          last   \* function: loop key <<kind, sid, level>> -> last non-silent cursor

tvars == <<tid, l, verdict, done, last>>

Data   == JsonDeserialize(IOEnv.TRACE_FILE)
Traces == Data.traces
Tr     == Traces[tid]
Ev     == Tr.ev
ToSet(s) == {s[k] : k \in DOMAIN s}

KeyOf(e) == IF e[2] = "b" THEN <<"b", e[3], e[4]>> ELSE <<"i", e[3], 0>>

Check(e) ==
    IF e[1] = "o" THEN
        (IF e[2] = "returned" THEN "ok"
         ELSE IF e[2] = "budget" THEN "no_progress_budget"
         ELSE IF e[3] \in ToSet(Tr.allowed) THEN "ok" ELSE "raised")
    ELSE \* dispatch
        LET silent == e[7] = 1 IN
        IF e[5] >= e[6] THEN "dispatch_outside_frame"
        \* the loops never dispatch at or beyond maxNesting; a rule that consults the terminator chain (silent)
        \* does so at the level of the tokens it has pushed so far - at most two below its own (table_open,
        \* tbody_open), one for a list - so silent block dispatches are bounded by maxNesting + 2
        ELSE IF (~silent /\ e[4] >= Tr.maxn) \/ (silent /\ e[4] > Tr.maxn + (IF e[2] = "b" THEN 2 ELSE 0))
             THEN "dispatch_beyond_max_nesting"
        ELSE IF ~silent /\ KeyOf(e) \in DOMAIN last /\ e[5] <= last[KeyOf(e)] THEN "cursor_did_not_advance"
        ELSE "ok"

Consume ==
    LET e == Ev[l] IN
    /\ l' = l + 1
    /\ verdict' = Check(e)
    /\ last' = IF e[1] = "d" /\ e[7] = 0
               THEN [k \in DOMAIN last \cup {KeyOf(e)} |-> IF k = KeyOf(e) THEN e[5] ELSE last[k]]
               ELSE last
    /\ UNCHANGED <<tid, done>>

Finish == /\ PrintT(<<"V", tid, verdict, l>>) /\ done' = TRUE /\ UNCHANGED <<tid, l, verdict, last>>

TraceInit == /\ tid \in 1..Len(Traces) /\ l = 1 /\ verdict = "ok" /\ done = FALSE /\ last = <<>>
TraceNext == /\ ~done
             /\ IF verdict # "ok" \/ l > Len(Ev) THEN Finish ELSE Consume
TraceSpec == TraceInit /\ [][TraceNext]_tvars
=============================================================================
