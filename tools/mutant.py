#!/venv/bin/python
"""tools/mutant.py NAME CHECK[,CHECK..] FILE OLD NEW  - detection self-test on a scratch copy (never /repo).

Creates a scratch worktree of /repo under /tmp/mut/NAME, replaces OLD by NEW (exactly one occurrence) in FILE,
stores the diff as /verif/mutants/NAME.diff, requires the pinned suite to stay green, runs the named checks with
VERIF_REPO pointing at the scratch copy, appends the outcome to /verif/mutants/RESULTS.jsonl, removes the copy.
With FILE == '-' an existing /verif/mutants/NAME.diff (or a path given as OLD) is applied instead."""
import json, os, subprocess, sys
name, checks, f = sys.argv[1], sys.argv[2].split(","), sys.argv[3]
wt = f"/tmp/mut/{name}"
def sh(c, **k): return subprocess.run(c, shell=True, capture_output=True, text=True, **k)
sh(f"git -C /repo worktree remove --force {wt}")
os.makedirs("/tmp/mut", exist_ok=True)
r = sh(f"git -C /repo worktree add --detach {wt} HEAD"); assert r.returncode == 0, r.stderr
try:
    if f == "-":
        src = sys.argv[4] if len(sys.argv) > 4 else f"/verif/mutants/{name}.diff"
        r = sh(f"git -C {wt} apply {src}"); assert r.returncode == 0, r.stderr
        diff = open(src).read()
    else:
        old, new = sys.argv[4], sys.argv[5]
        p = os.path.join(wt, f); s = open(p).read()
        assert s.count(old) == 1, f"{s.count(old)} occurrences of OLD in {f}"
        open(p, "w").write(s.replace(old, new))
        diff = sh(f"git -C {wt} diff").stdout
        open(f"/verif/mutants/{name}.diff", "w").write(diff)
    b = sh(f"/verif/tools/baseline.py {wt}")
    suite = b.stdout.strip().splitlines()[0] if b.stdout.strip() else "baseline failed to run"
    res = {"mutant": name, "suite": suite, "suite_green": b.returncode == 0, "checks": {}}
    for c in checks:
        env = dict(os.environ, VERIF_REPO=wt, VERIF_NO_EVIDENCE="1")
        r = subprocess.run(["timeout", "3000", "/verif/check", c], cwd="/verif", env=env, capture_output=True, text=True)
        viol = [l for l in r.stdout.splitlines() if l.startswith("VIOLATION")]
        res["checks"][c] = {"exit": r.returncode, "violations_printed": len(viol),
                            "summary": [l for l in r.stdout.splitlines() if l.startswith(c + " [")][-1:],
                            "stderr_tail": (r.stderr or "")[-600:] if r.returncode not in (0, 1) else "",
                            "first_key": next((l.strip() for l in r.stdout.splitlines() if l.strip().startswith("key:")), "")[:200]}
    with open("/verif/mutants/RESULTS.jsonl", "a") as fh:
        fh.write(json.dumps(res) + "\n")
    print(json.dumps(res)[:600])
finally:
    sh(f"git -C /repo worktree remove --force {wt}")
