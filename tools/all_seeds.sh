#!/bin/sh
# tools/all_seeds.sh [pattern] : run every seeded change (seeded/<name>/patch.diff) against the check of the property it
# breaks, on scratch worktrees (never /repo); one line per seed. Results also go to mutants/RESULTS.jsonl.
cd "$(dirname "$0")/.."
for d in seeded/${1:-C}*; do
  n=$(basename $d); c=$(echo $n | cut -c1-3)
  r=$(tools/mutant.py seed-$n $c - /verif/$d/patch.diff 2>&1 | tail -1)
  echo "$n $(echo "$r" | sed -n 's/.*"exit": \([0-9]*\).*violations=\([0-9]*\).*/exit=\1 violations=\2/p')"
  echo "$r" | grep -q '"exit": 1' || echo "   NOT DETECTED: $r" | cut -c1-400
done
