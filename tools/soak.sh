#!/bin/sh
# tools/soak.sh : false-alarm soak on the unchanged tree - every quick check under seeds 1..3, then every thorough check.
# One summary line per check; anything with rc != 0 on the unchanged tree is a false alarm (or a finding) to triage.
cd "$(dirname "$0")/.."
for s in ${SOAK_SEEDS:-1 2 3}; do
  echo "== quick, VERIF_SEED=$s"
  VERIF_SEED=$s VERIF_NO_EVIDENCE=1 tools/run_all.sh quick
  VERIF_SEED=$s VERIF_NO_EVIDENCE=1 timeout 3000 ./check system --tier quick > /tmp/run_all_system.log 2>&1; echo "system rc=$? $(grep -E '^SYSTEM \[' /tmp/run_all_system.log | tail -1)"
done
echo "== thorough"
VERIF_NO_EVIDENCE=1 tools/run_all.sh thorough ${SOAK_THOROUGH:-C14 C12 C05 C20 C17 C07 C06 C02 C04 C08 C03 C01 C09 C19 C15 C13 C11 C16 C10 C18}
VERIF_NO_EVIDENCE=1 timeout 7000 ./check system --tier thorough > /tmp/run_all_system.log 2>&1; echo "system[thorough] rc=$? $(grep -E '^SYSTEM \[' /tmp/run_all_system.log | tail -1)"
