#!/venv/bin/python
"""tools/keep_seed.py Cxx [name]: verify a sub-agent's seeded change in its scratch worktree, keep it under
/verif/seeded/<name>/ (patch.diff, demo.py, meta.json), remove the worktree."""
import json, os, shutil, subprocess, sys
pid = sys.argv[1]; name = sys.argv[2] if len(sys.argv) > 2 else pid
base = sys.argv[3] if len(sys.argv) > 3 else "/tmp/seed"
wt = f"{base}/{pid}"; out = f"{wt}/_out"; dst = f"/verif/seeded/{name}"
def sh(cmd, **k): return subprocess.run(cmd, shell=True, capture_output=True, text=True, **k)
os.makedirs(dst, exist_ok=True)
for f in ("patch.diff", "demo.py", "meta.json"):
    shutil.copy(f"{out}/{f}", f"{dst}/{f}")
sh(f"git -C {wt} checkout -- markdown_it")
env = dict(os.environ, PYTHONPATH=wt, PYTHONDONTWRITEBYTECODE="1")
d0 = subprocess.run(["timeout", "300", "/venv/bin/python", f"{dst}/demo.py"], cwd=wt, env=env, capture_output=True, text=True)
a = sh(f"git -C {wt} apply {dst}/patch.diff")
assert a.returncode == 0, a.stderr
d1 = subprocess.run(["timeout", "300", "/venv/bin/python", f"{dst}/demo.py"], cwd=wt, env=env, capture_output=True, text=True)
b = sh(f"/verif/tools/baseline.py {wt}")
meta = json.load(open(f"{dst}/meta.json"))
meta["verified_by_me"] = {"demo_exit_without_change": d0.returncode, "demo_exit_with_change": d1.returncode,
                          "suite_with_change": b.stdout.strip().splitlines()[0] if b.stdout.strip() else b.stderr[-200:],
                          "ran": [f"PYTHONPATH=<tree> /venv/bin/python demo.py (clean, then patched)", "/verif/tools/baseline.py <tree> (pinned 875 tests, guard off)"]}
meta["breaks"] = pid
json.dump(meta, open(f"{dst}/meta.json", "w"), indent=1)
ok = d0.returncode == 0 and d1.returncode == 1 and b.returncode == 0
print(name, "OK" if ok else "NOT-CONFIRMED", meta["verified_by_me"])
print("  needs:", meta.get("needs", "")[:200])
if ok:
    sh(f"git -C /repo worktree remove --force {wt}")
else:
    shutil.rmtree(dst)
