#!/bin/sh
# tools/try_patch.sh <patch> <check-id> [tier]  : apply patch to /repo, run check, always undo
P="$1"; ID="$2"; TIER="${3:-quick}"
cd /verif
git -C /repo apply "$P" || { echo "patch does not apply"; exit 3; }
VERIF_NO_EVIDENCE=1 ./check "$ID" --tier "$TIER" 2>&1 | grep -E "VIOLATION|KNOWN|MACHINERY|^C[0-9]+ \[" | head -8
git -C /repo checkout -- . 
git -C /repo status --short | head -3
