#!/venv/bin/python
"""Run the repository's pinned suite (guard off) and compare with BASELINE.json stable_pass."""
import json, subprocess, sys, tempfile, os, xml.etree.ElementTree as ET
repo = sys.argv[1] if len(sys.argv) > 1 else "/repo"
base = json.load(open("/root/.vp/BASELINE.json"))
want = set(base["stable_pass"])
fd, path = tempfile.mkstemp(suffix=".xml"); os.close(fd)
env = dict(os.environ); env.pop("MARKDOWN_IT_PY_VERIF", None); env["PYTHONDONTWRITEBYTECODE"] = "1"
env["PYTHONPATH"] = repo
p = subprocess.run(["/venv/bin/python", "-m", "pytest", "-ra", "-q", "-p", "no:cacheprovider", "--timeout=900",
                    "--continue-on-collection-errors", f"--junitxml={path}"], cwd=repo, env=env,
                   capture_output=True, text=True)
passed = set()
for tc in ET.parse(path).getroot().iter("testcase"):
    if not any(ch.tag in ("failure", "error", "skipped") for ch in tc):
        passed.add(f"{tc.get('classname')}::{tc.get('name')}")
os.unlink(path)
missing = sorted(want - passed)
print(f"baseline: {len(want)} expected, {len(want & passed)} passed, {len(missing)} missing")
for m in missing[:20]:
    print("  MISSING", m)
sys.exit(1 if missing else 0)
