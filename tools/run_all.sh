#!/bin/sh
# tools/run_all.sh <tier> [ids...] : run checks sequentially, one summary line each
TIER="${1:-quick}"; shift
IDS="${*:-C01 C02 C03 C04 C05 C06 C07 C08 C09 C10 C11 C12 C13 C14 C15 C16 C17 C18 C19 C20}"
cd "$(dirname "$0")/.."
for c in $IDS; do
  s=$(date +%s)
  timeout ${CHECK_TIMEOUT:-5400} ./check $c --tier $TIER > /tmp/run_all_$c.log 2>&1; rc=$?
  e=$(date +%s)
  echo "$c rc=$rc $((e-s))s $(grep -E "^$c \[" /tmp/run_all_$c.log | tail -1)"
  [ $rc -ne 0 ] && grep -E "VIOLATION|MACHINERY|key:" /tmp/run_all_$c.log | head -6
done
