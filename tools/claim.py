#!/venv/bin/python
"""Maintain MANIFEST.json: tools/claim.py C11 "<level text>" "<level note>" "<technique>" [design_ref]"""
import json, sys
pid, text, note, tech = sys.argv[1:5]
ref = sys.argv[5] if len(sys.argv) > 5 else ""
m = json.load(open("/verif/MANIFEST.json"))
m["checks"] = [c for c in m["checks"] if c["property_id"] != pid]
m["checks"].append({
    "property_id": pid,
    "quick_cmd": f"./check {pid} --tier quick",
    "thorough_cmd": f"./check {pid} --tier thorough",
    "evidence_file": f"/verif/evidence/{pid}.json",
    "replay_cmd_template": f"./check {pid} --replay {{path}}",
    "engine": "tla-conformance",
    "level_claimed": {"category": "model_checking", "text": text, "design_ref": ref},
    "level_note": note,
    "technique": tech,
})
m["checks"].sort(key=lambda c: c["property_id"])
m["not_applicable"] = [n for n in m.get("not_applicable", []) if n["property_id"] != pid]
json.dump(m, open("/verif/MANIFEST.json", "w"), indent=1)
print("claimed", pid, "- remaining not_applicable:", [n["property_id"] for n in m["not_applicable"]])
