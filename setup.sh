#!/bin/sh
# Offline sanity setup: nothing to build (pure Python + TLA+ specs); verify the toolchain.
set -e
cd "$(dirname "$0")"
command -v tlc >/dev/null
/venv/bin/python -c "import sys; sys.path.insert(0,'/repo'); import markdown_it"
mkdir -p evidence replays
echo setup ok
